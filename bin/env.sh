# sourced by bin/setup and bin/check
export VERIF_DIR="${VERIF_DIR:-$(cd "$(dirname "${BASH_SOURCE[0]}")/.." && pwd)}"
export GOFLAGS=-mod=mod GOPROXY=off GOSUMDB=off GOTOOLCHAIN=local
export GOCACHE="$VERIF_DIR/.work/gocache"
export CGO_ENABLED=1
mkdir -p "$VERIF_DIR/.work/bin" "$VERIF_DIR/.work/gocache" "$VERIF_DIR/evidence"
