//go:build verifsched

package main

import (
	"fmt"
	"io"
	"net/http"
	"net/url"
	"os"
	"sort"
	"strings"
	"time"

	"github.com/charmbracelet/log"

	"github.com/flamego/flamego"
	"github.com/flamego/flamego/inject"
	sched "github.com/flamego/flamego/internal/verifsched"
	vsync "github.com/flamego/flamego/internal/verifsync"
)

// ---- the small sharp drivers of C05 ----

type reqSpec struct {
	Method string
	Path   string
	Hdr    map[string]string
	Body   string
}

type spy struct {
	hdr   http.Header
	code  int
	body  strings.Builder
	owner int
}

func (s *spy) Header() http.Header { return s.hdr }
func (s *spy) WriteHeader(c int) {
	sched.Point()
	if s.code == 0 {
		s.code = c
	}
}
func (s *spy) Write(b []byte) (int, error) {
	sched.Point()
	if s.code == 0 {
		s.code = 200
	}
	s.body.Write(b)
	return len(b), nil
}

var staticDir string

// staticFixture creates (once per process) a directory with one file for the Static scenario.
func staticFixture() string {
	if staticDir == "" {
		d, err := os.MkdirTemp(os.Getenv("VERIF_DIR")+"/.work", "c05static")
		if err != nil {
			d, _ = os.MkdirTemp("", "c05static")
		}
		_ = os.WriteFile(d+"/file.txt", []byte("file content"), 0o644)
		mt := time.Date(2020, 1, 2, 3, 4, 5, 0, time.UTC)
		_ = os.Chtimes(d+"/file.txt", mt, mt)
		staticDir = d
	}
	return staticDir
}

type reqVal struct{ id string }

func (r *reqVal) ID() string { return r.id }

type ider interface{ ID() string }

type appStore struct{ name string }

func (a *appStore) Name() string { return a.name }

type namer interface{ Name() string }

// world is one fresh instance of a scenario: a fully set-up Flame and the per-thread plan.
type world struct {
	f       *flamego.Flame
	plan    [][]reqSpec // per thread
	notes   [][]strings.Builder
	curIdx  []int
	curReq  []*http.Request
	curSpy  []*spy
	serialT int // thread id to use when the scheduler is not active (serial baseline)
}

func (w *world) me() int {
	if sched.Active() {
		return sched.Current()
	}
	return w.serialT
}

// note appends to the observation record of the request the calling thread is serving.
func (w *world) note(format string, a ...interface{}) {
	t := w.me()
	fmt.Fprintf(&w.notes[t][w.curIdx[t]], format+";", a...)
}

// own records whether the handler was handed the request and writer of its own thread.
func (w *world) own(c flamego.Context) {
	t := w.me()
	w.note("ownreq=%v", c.Request().Request == w.curReq[t])
	c.ResponseWriter().Header().Set("X-Thread", fmt.Sprint(t))
	w.note("ownwriter=%v", w.curSpy[t].hdr.Get("X-Thread") == fmt.Sprint(t))
}

func fmtParams(p flamego.Params) string {
	keys := make([]string, 0, len(p))
	for k := range p {
		keys = append(keys, k)
	}
	sort.Strings(keys)
	var b strings.Builder
	for _, k := range keys {
		fmt.Fprintf(&b, "%s=%q,", k, p[k])
	}
	return b.String()
}

func newWorld(plan [][]reqSpec) *world {
	w := &world{f: flamego.NewWithLogger(io.Discard), plan: plan}
	n := len(plan)
	w.notes = make([][]strings.Builder, n)
	for t := range plan {
		w.notes[t] = make([]strings.Builder, len(plan[t]))
	}
	w.curIdx = make([]int, n)
	w.curReq = make([]*http.Request, n)
	w.curSpy = make([]*spy, n)
	return w
}

// serve performs request k of thread t and appends the response to its observation record.
func (w *world) serve(t, k int) {
	rs := w.plan[t][k]
	req := &http.Request{Method: rs.Method, URL: &url.URL{Path: rs.Path}, Proto: "HTTP/1.1", ProtoMajor: 1, ProtoMinor: 1,
		Header: http.Header{}, Host: "example.com", RequestURI: rs.Path, RemoteAddr: "192.0.2.1:1", Body: http.NoBody}
	for hk, hv := range rs.Hdr {
		req.Header.Set(hk, hv)
	}
	if rs.Body != "" {
		req.Body = io.NopCloser(strings.NewReader(rs.Body))
		req.ContentLength = int64(len(rs.Body))
	}
	sp := &spy{hdr: http.Header{}, owner: t}
	w.curIdx[t], w.curReq[t], w.curSpy[t] = k, req, sp
	sched.Point()
	w.f.ServeHTTP(sp, req)
	hk := make([]string, 0)
	for k2, v := range sp.hdr {
		hk = append(hk, k2+"="+strings.Join(v, "|"))
	}
	sort.Strings(hk)
	body := sp.body.String()
	if i := strings.Index(body, "</pre>"); i >= 0 && strings.Contains(body, "<h1>PANIC</h1>") {
		// of the stack trace only this is kept: which of the per-thread panicking handlers it names
		var names []string
		for th := 0; th < 4; th++ {
			if strings.Contains(body[i:], fmt.Sprintf("panicOfThread%d", th)) {
				names = append(names, fmt.Sprint(th))
			}
		}
		body = body[:i] + "</pre>[stack trace cut: it names the harness's own call stack]"
		if len(names) > 0 {
			body += "[per-thread panicking handlers named in it: " + strings.Join(names, ",") + "]"
		}
	}
	fmt.Fprintf(&w.notes[t][k], "RESPONSE status=%d body=%q headers=%v", sp.code, body, hk)
}

// the panicking handlers of the every-request-panics scenario: one named function per thread, so that the page
// Recovery writes for a request can be told from the page of another request by the handler its trace names
//
//go:noinline
func panicOfThread0(c flamego.Context) { sched.Point(); panic("boom-marker-0") }

//go:noinline
func panicOfThread1(c flamego.Context) { sched.Point(); panic("boom-marker-1") }

//go:noinline
func panicOfThread2(c flamego.Context) { sched.Point(); panic("boom-marker-2") }

//go:noinline
func panicOfThread3(c flamego.Context) { sched.Point(); panic("boom-marker-3") }

// chunkReader hands out left chunks of eight times its letter; it is a plain io.Reader (no WriteTo).
type chunkReader struct {
	letter byte
	left   int
}

func (r *chunkReader) Read(p []byte) (int, error) {
	sched.Point()
	if r.left == 0 {
		return 0, io.EOF
	}
	r.left--
	n := 8
	if len(p) < n {
		n = len(p)
	}
	for i := 0; i < n; i++ {
		p[i] = r.letter
	}
	return n, nil
}

type parentService struct{ name string }

type scenario struct {
	Name    string
	Threads int
	Build   func(threads int) *world
}

func planFor(threads int, per func(t int) []reqSpec) [][]reqSpec {
	p := make([][]reqSpec, threads)
	for t := range p {
		p[t] = per(t)
	}
	return p
}

var scenarios = []scenario{
	{Name: "same-dynamic-route", Build: func(n int) *world {
		w := newWorld(planFor(n, func(t int) []reqSpec { return []reqSpec{{Method: "GET", Path: fmt.Sprintf("/u/id%d", t)}} }))
		w.f.Use(func(c flamego.Context) {
			id := c.Param("id")
			sched.Point()
			c.Map(&reqVal{id: id})
			sched.Point()
			w.note("mw-param=%s", id)
		})
		w.f.Get("/u/{id}", func(c flamego.Context, v *reqVal) string {
			sched.Point()
			w.own(c)
			w.note("params=%s injected=%s", fmtParams(c.Params()), v.id)
			return "hello " + c.Param("id")
		})
		return w
	}},
	{Name: "static-shortcut+tree+named-route", Build: func(n int) *world {
		paths := []string{"/s", "//s", "/n/v"}
		w := newWorld(planFor(n, func(t int) []reqSpec { return []reqSpec{{Method: "GET", Path: paths[t%3]}} }))
		h := func(c flamego.Context) string {
			sched.Point()
			w.own(c)
			u := c.URLPath("n", "x", fmt.Sprintf("q%d", w.me()))
			sched.Point()
			w.note("params=%s url=%s static-url=%s", fmtParams(c.Params()), u, c.URLPath("s"))
			return "ok " + c.Param("route")
		}
		w.f.Get("/s", h).Name("s")
		w.f.Get("/n/{x}", h).Name("n")
		return w
	}},
	{Name: "same-static-route-through-the-shortcut", Build: func(n int) *world {
		w := newWorld(planFor(n, func(t int) []reqSpec { return []reqSpec{{Method: "GET", Path: "/s"}} }))
		w.f.Get("/s", func(c flamego.Context) string {
			sched.Point()
			w.own(c)
			w.note("params=%s", fmtParams(c.Params()))
			return "ok " + c.Param("route")
		})
		w.f.Get("/{p}", func(c flamego.Context) string { return "other" })
		return w
	}},
	{Name: "regex+matchall+optional-backtracking", Build: func(n int) *world {
		paths := []string{"/a/1/y", "/a/1/2/z", "/a", "/a/b7/x"}
		w := newWorld(planFor(n, func(t int) []reqSpec { return []reqSpec{{Method: "GET", Path: paths[t%4]}} }))
		h := func(c flamego.Context) string {
			sched.Point()
			w.own(c)
			w.note("params=%s", fmtParams(c.Params()))
			return c.Param("route")
		}
		w.f.Get("/a/{r: /[0-9]+/}/x", h)
		w.f.Get("/a/{p}/y", h)
		w.f.Get("/a/{m: **}/z", h)
		w.f.Get("/a/?opt", h)
		w.f.Get("/a/b{d: /[0-9]+/}/x", h)
		return w
	}},
	{Name: "same-match-all-in-the-middle,different-captures", Build: func(n int) *world {
		w := newWorld(planFor(n, func(t int) []reqSpec {
			return []reqSpec{{Method: "GET", Path: fmt.Sprintf("/t/w%d/x%d/z", t, t)}}
		}))
		w.f.Get("/t/{m: **}/z", func(c flamego.Context) string {
			sched.Point()
			w.own(c)
			w.note("params=%s", fmtParams(c.Params()))
			return "m=" + c.Param("m")
		})
		w.f.Get("/t/{p}", func(c flamego.Context) string { return "other" })
		return w
	}},
	{Name: "status-and-body-handlers(built-in-fast-path)-on-every-thread", Build: func(n int) *world {
		w := newWorld(planFor(n, func(t int) []reqSpec { return []reqSpec{{Method: "GET", Path: fmt.Sprintf("/t%d", t)}} }))
		for t := 0; t < n; t++ {
			t := t
			// func() (int, string): the handler type the framework wraps in its own fast invoker; a hook before
			// the status goes out gives the other threads room between the two returned values being read
			w.f.Get(fmt.Sprintf("/t%d", t), func(c flamego.Context) {
				c.ResponseWriter().Before(func(flamego.ResponseWriter) { sched.Point() })
			}, func() (int, string) {
				sched.Point()
				return 210 + t, fmt.Sprintf("body of thread %d", t)
			})
		}
		return w
	}},
	{Name: "services-inherited-from-a-parent-injector", Build: func(n int) *world {
		w := newWorld(planFor(n, func(t int) []reqSpec { return []reqSpec{{Method: "GET", Path: fmt.Sprintf("/svc/%d", t)}} }))
		base := inject.New()
		base.Map(&parentService{name: "from-the-parent"})
		w.f.SetParent(base)
		w.f.Get("/svc/{id}", func(c flamego.Context, s *parentService) string {
			sched.Point()
			w.own(c)
			return s.name + " " + c.Param("id")
		})
		return w
	}},
	{Name: "header-constrained", Build: func(n int) *world {
		w := newWorld(planFor(n, func(t int) []reqSpec {
			if t%2 == 0 {
				return []reqSpec{{Method: "GET", Path: "/h", Hdr: map[string]string{"X-K": "v"}}}
			}
			return []reqSpec{{Method: "GET", Path: "/h"}}
		}))
		w.f.Get("/h", func(c flamego.Context) string { sched.Point(); w.own(c); return "gated" }).Headers("X-K", "^v$")
		w.f.Get("/{m: **}", func(c flamego.Context) string { sched.Point(); w.own(c); return "fallback " + c.Param("m") })
		return w
	}},
	{Name: "two-header-constraints,requests-failing-different-ones", Build: func(n int) *world {
		w := newWorld(planFor(n, func(t int) []reqSpec {
			switch t % 3 {
			case 0:
				return []reqSpec{{Method: "GET", Path: "/h2", Hdr: map[string]string{"X-A": "1"}}} // passes the first constraint, fails the second
			case 1:
				return []reqSpec{{Method: "GET", Path: "/h2", Hdr: map[string]string{"X-B": "1"}}}
			}
			return []reqSpec{{Method: "GET", Path: "/h2", Hdr: map[string]string{"X-A": "1", "X-B": "1"}}}
		}))
		w.f.Get("/h2", func(c flamego.Context) string { sched.Point(); w.own(c); return "gated" }).Headers("X-A", "^1$", "X-B", "^1$")
		w.f.Get("/{m: **}", func(c flamego.Context) string { sched.Point(); w.own(c); return "fallback " + c.Param("m") })
		return w
	}},
	{Name: "three-Use-calls+several-handlers+action", Build: func(n int) *world {
		w := newWorld(planFor(n, func(t int) []reqSpec { return []reqSpec{{Method: "GET", Path: fmt.Sprintf("/m/%d", t)}} }))
		for i := 0; i < 3; i++ {
			i := i
			w.f.Use(func(c flamego.Context) { sched.Point(); w.note("mw%d:%s", i, c.Param("k")) })
		}
		w.f.Get("/m/{k}", func(c flamego.Context) { w.note("h1:%s", c.Param("k")) },
			func(c flamego.Context) { sched.Point(); w.note("h2:%s", c.Param("k")); w.own(c) },
			func(c flamego.Context) { w.note("h3:%s", c.Param("k")) })
		w.f.Action(func(c flamego.Context) string {
			sched.Point()
			w.note("action:%s", c.Param("k"))
			return "done " + c.Param("k")
		})
		return w
	}},
	{Name: "three-Use-calls+two-single-handler-routes", Build: func(n int) *world {
		// after three separate Use calls the middleware slice has spare capacity for exactly one more
		// handler: the shape in which an aliasing append would make two requests share a slot
		paths := []string{"/one/a", "/two/b"}
		w := newWorld(planFor(n, func(t int) []reqSpec { return []reqSpec{{Method: "GET", Path: paths[t%2]}} }))
		for i := 0; i < 3; i++ {
			i := i
			w.f.Use(func(c flamego.Context) { sched.Point(); w.note("mw%d", i) })
		}
		w.f.Get("/one/{k}", func(c flamego.Context) string { sched.Point(); w.own(c); return "one " + c.Param("k") })
		w.f.Get("/two/{k}", func(c flamego.Context) string { sched.Point(); w.own(c); return "two " + c.Param("k") })
		return w
	}},
	{Name: "logger+recovery,one-request-panics", Build: func(n int) *world {
		w := newWorld(planFor(n, func(t int) []reqSpec {
			if t == 0 {
				return []reqSpec{{Method: "GET", Path: "/boom"}}
			}
			return []reqSpec{{Method: "GET", Path: fmt.Sprintf("/fine/%d", t)}}
		}))
		w.f.Use(flamego.Logger(), flamego.Recovery())
		w.f.Get("/boom", func(c flamego.Context) { sched.Point(); w.own(c); panic("boom-marker") })
		w.f.Get("/fine/{k}", func(c flamego.Context, l *log.Logger) string { sched.Point(); w.own(c); return "fine " + c.Param("k") })
		return w
	}},
	{Name: "recovery,every-request-panics-in-a-handler-of-its-own", Build: func(n int) *world {
		w := newWorld(planFor(n, func(t int) []reqSpec {
			return []reqSpec{{Method: "GET", Path: fmt.Sprintf("/boom/%d", t)}}
		}))
		w.f.Use(flamego.Recovery())
		hs := []func(c flamego.Context){panicOfThread0, panicOfThread1, panicOfThread2, panicOfThread3}
		for t := 0; t < n && t < len(hs); t++ {
			h := hs[t]
			w.f.Get(fmt.Sprintf("/boom/%d", t), func(c flamego.Context) { sched.Point(); w.own(c) }, h)
		}
		return w
	}},
	{Name: "before-hook-of-one-request-waits-for-another-request", Build: func(n int) *world {
		w := newWorld(planFor(n, func(t int) []reqSpec {
			return []reqSpec{{Method: "GET", Path: fmt.Sprintf("/turn/%d", t)}}
		}))
		// the Before hook of thread 0's request does not return until thread 1's request has been through its
		// handler (a request that is slow before routing holds up nobody else); served alone, nothing waits
		var other vsync.WaitGroup
		other.Add(1)
		w.f.Before(func(rw http.ResponseWriter, r *http.Request) bool {
			if r.URL.Path == "/turn/0" && sched.Active() {
				other.Wait()
			}
			return false
		})
		w.f.Use(func(c flamego.Context) { sched.Point() })
		w.f.Get("/turn/{k}", func(c flamego.Context) string {
			w.own(c)
			if c.Param("k") == "1" && sched.Active() {
				other.Done()
			}
			return "turn " + c.Param("k")
		})
		return w
	}},
	{Name: "request-bodies-read-and-held", Build: func(n int) *world {
		w := newWorld(planFor(n, func(t int) []reqSpec {
			return []reqSpec{{Method: "POST", Path: fmt.Sprintf("/echo/%d", t), Body: strings.Repeat(string(rune('a'+t)), 24)}}
		}))
		w.f.Post("/echo/{k}", func(c flamego.Context) {
			w.own(c)
			// the bytes are read, held across a point at which another request may read its own body, and only
			// then looked at
			b, err := c.Request().Body().Bytes()
			sched.Point()
			w.note("body-as-bytes=%q err=%v", b, err)
			_, _ = c.ResponseWriter().Write(b)
		}, func(c flamego.Context) {})
		return w
	}},
	{Name: "bodies-streamed-from-a-reader", Build: func(n int) *world {
		w := newWorld(planFor(n, func(t int) []reqSpec {
			return []reqSpec{{Method: "GET", Path: fmt.Sprintf("/stream/%d", t)}}
		}))
		w.f.Get("/stream/{k}", func(c flamego.Context) {
			w.own(c)
			// three chunks of the thread's own letter, the scheduler may switch before every one of them
			_, _ = io.Copy(c.ResponseWriter(), &chunkReader{letter: byte('a' + c.ParamInt("k")), left: 3})
		})
		return w
	}},
	{Name: "return-values+fast-path+renderer", Build: func(n int) *world {
		paths := []string{"/json", "/text", "/tea", "/bytes", "/err"}
		w := newWorld(planFor(n, func(t int) []reqSpec { return []reqSpec{{Method: "GET", Path: paths[t%4]}} }))
		w.f.Use(flamego.Renderer())
		w.f.Get("/tea", func() (int, string) { sched.Point(); return 418, "teapot" })
		w.f.Get("/json", func(r flamego.Render, c flamego.Context) {
			sched.Point()
			w.own(c)
			r.JSON(201, map[string]int{"t": 1})
		})
		w.f.Get("/text", func(r flamego.Render, c flamego.Context) { sched.Point(); w.own(c); r.PlainText(203, "plain text") })
		w.f.Get("/err", func() error { sched.Point(); return fmt.Errorf("failure") })
		w.f.Get("/bytes", func(c flamego.Context) (int, []byte) { sched.Point(); w.own(c); return 202, []byte("raw") })
		return w
	}},
	{Name: "app-service-consumed-through-interface", Build: func(n int) *world {
		// a service mapped on the Flame by its concrete type and consumed through an interface it
		// implements (resolved by scanning the shared application injector), plus a request-scoped
		// value consumed the same way
		w := newWorld(planFor(n, func(t int) []reqSpec { return []reqSpec{{Method: "GET", Path: fmt.Sprintf("/i/%d", t)}} }))
		w.f.Map(&appStore{name: "app-store"})
		w.f.Use(func(c flamego.Context) { sched.Point(); c.Map(&reqVal{id: "req-" + c.Param("k")}) })
		w.f.Get("/i/{k}", func(c flamego.Context, st namer, rv ider) string {
			sched.Point()
			w.own(c)
			w.note("store=%s reqval=%s", st.Name(), rv.ID())
			return st.Name() + " " + rv.ID()
		})
		return w
	}},
	{Name: "not-found-chains+static-middleware", Build: func(n int) *world {
		// application middleware incl. Static (serving a real file) in front of a user not-found chain;
		// one thread is served a file, the others fall through to not-found / a route
		paths := []string{"/file.txt", "/missing", "/r/1", "/"}
		w := newWorld(planFor(n, func(t int) []reqSpec { return []reqSpec{{Method: "GET", Path: paths[t%4]}} }))
		w.f.Use(flamego.Static(flamego.StaticOptions{Directory: staticFixture(), SetETag: true}))
		w.f.Use(func(c flamego.Context) { sched.Point(); w.note("mw:%s", c.Request().URL.Path) })
		w.f.NotFound(func(c flamego.Context) string {
			sched.Point()
			w.own(c)
			c.ResponseWriter().WriteHeader(404)
			return "nf " + c.Request().URL.Path
		})
		w.f.Get("/r/{k}", func(c flamego.Context) string { sched.Point(); w.own(c); return "r " + c.Param("k") })
		return w
	}},
	{Name: "optional-named-route-URLs+cookies+query", Build: func(n int) *world {
		w := newWorld(planFor(n, func(t int) []reqSpec {
			return []reqSpec{{Method: "GET", Path: fmt.Sprintf("/users/u%d/settings", t), Hdr: map[string]string{"Cookie": fmt.Sprintf("ck=v%d", t)}}}
		}))
		h := func(c flamego.Context) string {
			sched.Point()
			w.own(c)
			t := w.me()
			long := c.URLPath("u", "name", fmt.Sprintf("n%d", t), "withOptional", "true")
			sched.Point()
			short := c.URLPath("u", "name", fmt.Sprintf("n%d", t))
			if t%2 == 1 {
				short, long = c.URLPath("u", "name", fmt.Sprintf("n%d", t)), c.URLPath("u", "name", fmt.Sprintf("n%d", t), "withOptional", "true")
			}
			c.SetCookie(http.Cookie{Name: "out", Value: c.Cookie("ck") + " +"})
			w.note("params=%s long=%s short=%s cookie=%s", fmtParams(c.Params()), long, short, c.Cookie("ck"))
			return long + " " + short
		}
		w.f.Get("/users/{name}/?settings", h).Name("u")
		return w
	}},
	{Name: "response-writer-hooks+flush+nested-invoke", Build: func(n int) *world {
		w := newWorld(planFor(n, func(t int) []reqSpec { return []reqSpec{{Method: []string{"GET", "HEAD"}[t%2], Path: fmt.Sprintf("/w/%d", t)}} }))
		w.f.Map(&appStore{name: "store"})
		w.f.Use(func(c flamego.Context) {
			t := w.me()
			c.ResponseWriter().Before(func(rw flamego.ResponseWriter) {
				sched.Point()
				rw.Header().Set("X-Hook", fmt.Sprint(t))
				w.note("hook:status=%d", rw.Status())
			})
		})
		w.f.Any("/w/{k}", func(c flamego.Context) {
			sched.Point()
			w.own(c)
			// nested invocation and struct injection from inside a handler
			vals, err := c.Invoke(func(st *appStore, r *http.Request) string { return st.Name() + ":" + r.URL.Path })
			var target struct {
				St *appStore `inject:""`
			}
			aerr := c.Apply(&target)
			w.note("invoke=%v,%v apply=%v,%v", vals[0].String(), err, target.St != nil, aerr)
			c.ResponseWriter().Flush()
			sched.Point()
			_, _ = c.ResponseWriter().Write([]byte("body " + c.Param("k")))
			w.note("size=%d status=%d", c.ResponseWriter().Size(), c.ResponseWriter().Status())
		})
		return w
	}},
	{Name: "two-requests-per-thread(warm-and-cold-caches)", Build: func(n int) *world {
		w := newWorld(planFor(n, func(t int) []reqSpec {
			return []reqSpec{{Method: "GET", Path: fmt.Sprintf("/w/%d/first", t)}, {Method: "GET", Path: fmt.Sprintf("/w/%d/second", t)}}
		}))
		w.f.Use(func(c flamego.Context) { c.Map(&reqVal{id: c.Param("a") + "-" + c.Param("b")}) })
		w.f.Get("/w/{a}/{b}", func(c flamego.Context, v *reqVal) string {
			sched.Point()
			w.own(c)
			w.note("params=%s injected=%s", fmtParams(c.Params()), v.id)
			return v.id
		}).Name("w")
		return w
	}},
}
