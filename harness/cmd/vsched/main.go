//go:build verifsched

// vsched is the C05 checker: engine S. It has the same command line as vcheck
// (`vsched C05 quick|thorough|--replay <file>`) plus a hidden worker mode.
package main

import (
	"bufio"
	"bytes"
	"encoding/json"
	"fmt"
	"hash/fnv"
	"os"
	"os/exec"
	"path/filepath"
	"runtime"
	"strconv"
	"strings"
	"time"

	sched "github.com/flamego/flamego/internal/verifsched"
	"github.com/flamego/flamego/verifharness/core"
)

type schedCase struct {
	Scenario string `json:"scenario"`
	Threads  int    `json:"threads"`
	Choices  []int  `json:"schedule_choices"`
	Detail   string `json:"detail,omitempty"`
}

func raceLogPath() string {
	// GORACE=log_path=<p> makes the detector write to <p>.<pid>
	for _, kv := range strings.Fields(os.Getenv("GORACE")) {
		if strings.HasPrefix(kv, "log_path=") {
			return strings.TrimPrefix(kv, "log_path=") + "." + strconv.Itoa(os.Getpid())
		}
	}
	return ""
}

var raceSeen int64

// newRaceReport returns the text the race detector has written since the last call.
func newRaceReport() string {
	p := raceLogPath()
	if p == "" {
		return ""
	}
	fi, err := os.Stat(p)
	if err != nil || fi.Size() <= raceSeen {
		return ""
	}
	raw, err := os.ReadFile(p)
	if err != nil {
		return ""
	}
	out := string(raw[raceSeen:])
	raceSeen = fi.Size()
	return out
}

type execResult struct {
	res             sched.Result
	obs             [][]string
	race            string
	extraGoroutines int
}

var baselines = map[string][][]string{}

// baseline serves every planned request alone on a fresh instance (the serial outcome).
func baseline(sc *scenario, threads int) [][]string {
	key := fmt.Sprintf("%s/%d", sc.Name, threads)
	if b, ok := baselines[key]; ok {
		return b
	}
	probe := sc.Build(threads)
	out := make([][]string, threads)
	for t := 0; t < threads; t++ {
		out[t] = make([]string, len(probe.plan[t]))
		for k := range probe.plan[t] {
			w := sc.Build(threads)
			w.serialT = t
			func() {
				defer func() {
					if p := recover(); p != nil {
						fmt.Fprintf(&w.notes[t][k], "ESCAPED-PANIC %v", p)
					}
				}()
				w.serve(t, k)
			}()
			out[t][k] = w.notes[t][k].String()
		}
	}
	baselines[key] = out
	return out
}

func runOnce(sc *scenario, threads int, prefix []int) execResult {
	w := sc.Build(threads)
	g0 := runtime.NumGoroutine()
	bodies := make([]func(), threads)
	for t := 0; t < threads; t++ {
		t := t
		bodies[t] = func() {
			for k := range w.plan[t] {
				w.serve(t, k)
			}
		}
	}
	wd := time.AfterFunc(60*time.Second, func() {
		fmt.Fprintf(os.Stderr, "INFRA: no progress for 60 s in scenario %s (a thread blocked on an un-hooked primitive?)\n", sc.Name)
		os.Exit(2)
	})
	res := sched.Run(bodies, prefix)
	wd.Stop()
	er := execResult{res: res, race: newRaceReport()}
	er.extraGoroutines = runtime.NumGoroutine() - g0
	er.obs = make([][]string, threads)
	for t := range er.obs {
		er.obs[t] = make([]string, len(w.plan[t]))
		for k := range w.plan[t] {
			er.obs[t][k] = w.notes[t][k].String()
		}
	}
	return er
}

// judge applies the per-execution oracles. kind is the finding key.
func judge(sc *scenario, threads int, er execResult) (bad, kind string) {
	if er.res.Diverged != "" {
		return "replay diverged: " + er.res.Diverged, "HARNESS-nondeterminism"
	}
	if er.res.Deadlock {
		return "deadlock: no enabled thread while some have not finished", "deadlock"
	}
	for t, p := range er.res.Escaped {
		if p != nil {
			return fmt.Sprintf("panic escaped ServeHTTP in thread %d: %v", t, p), "escaped-panic"
		}
	}
	if er.race != "" {
		return "data race reported by the race detector in this schedule:\n" + er.race, "data-race/" + raceSite(er.race)
	}
	base := baseline(sc, threads)
	for t := range er.obs {
		for k := range er.obs[t] {
			if er.obs[t][k] != base[t][k] {
				return fmt.Sprintf("thread %d request %d (%s %s) observed\n    %s\n  served alone it observes\n    %s", t, k, sc.planOf(threads)[t][k].Method, sc.planOf(threads)[t][k].Path, er.obs[t][k], base[t][k]), "not-isolated/" + sc.Name
			}
		}
	}
	return "", ""
}

func (sc *scenario) planOf(threads int) [][]reqSpec { return sc.Build(threads).plan }

// raceSite extracts the first flamego source location of a race report (finding key).
func raceSite(rep string) string {
	for _, line := range strings.Split(rep, "\n") {
		line = strings.TrimSpace(line)
		if (strings.Contains(line, "/repo/") || strings.Contains(line, "/overlay/src/")) && strings.Contains(line, ".go:") {
			f := line
			if i := strings.LastIndex(f, "/"); i >= 0 {
				f = f[i+1:]
			}
			if i := strings.Index(f, " "); i >= 0 {
				f = f[:i]
			}
			if i := strings.Index(f, ":"); i >= 0 {
				return f[:i]
			}
			return f
		}
	}
	return "unknown-site"
}

type workerStats struct {
	Executions      int64            `json:"executions"`
	Points          int64            `json:"points"`
	Decisions       int64            `json:"decisions"`
	MaxDecisions    int              `json:"max_decisions"`
	Preempted       int64            `json:"executions_with_preemption"`
	Outcomes        map[string]int64 `json:"outcomes"`
	Violations      []violationRec   `json:"violations"`
	Expired         bool             `json:"expired"`
	ExtraGoroutines int              `json:"extra_goroutines"`
	SelfCheck       string           `json:"determinism_selfcheck"`
	Sample          []int            `json:"sample_schedule"`
}

type violationRec struct {
	Key  string    `json:"key"`
	Desc string    `json:"desc"`
	Case schedCase `json:"case"`
}

type explorer struct {
	sc       *scenario
	threads  int
	bound    int
	w, n     int // shard
	deadline time.Time
	st       workerStats
	first    bool
}

func hashChoices(c []int) uint32 {
	h := fnv.New32a()
	for _, x := range c {
		h.Write([]byte{byte(x), byte(x >> 8)})
	}
	return h.Sum32()
}

const shardDepth = 2

func (e *explorer) explore(prefix []int, depth int) {
	if e.st.Expired || time.Now().After(e.deadline) {
		e.st.Expired = true
		return
	}
	er := runOnce(e.sc, e.threads, prefix)
	owned := depth >= shardDepth || e.w == 0
	choices := make([]int, len(er.res.Choices))
	for i, c := range er.res.Choices {
		choices[i] = c.Idx
	}
	if owned {
		e.st.Executions++
		e.st.Points += int64(er.res.Points)
		e.st.Decisions += int64(len(choices))
		if len(choices) > e.st.MaxDecisions {
			e.st.MaxDecisions = len(choices)
		}
		if er.extraGoroutines > e.st.ExtraGoroutines {
			e.st.ExtraGoroutines = er.extraGoroutines
		}
	}
	bad, kind := judge(e.sc, e.threads, er)
	if bad != "" {
		// determinism self-check of a violating schedule: run it again, must give the same observations
		if owned || true {
			e.st.Violations = append(e.st.Violations, violationRec{Key: kind, Desc: bad, Case: schedCase{Scenario: e.sc.Name, Threads: e.threads, Choices: choices}})
		}
		if len(e.st.Violations) > 40 {
			e.st.Expired = true
		}
	}
	if owned {
		sig := "isolated"
		if bad != "" {
			sig = "violation:" + kind
		}
		pre := 0
		for _, c := range er.res.Choices {
			if c.SelfEnabled && c.Idx != 0 {
				pre++
			}
		}
		if pre > 0 {
			e.st.Preempted++
		}
		e.st.Outcomes[fmt.Sprintf("%s/preemptions=%d", sig, pre)]++
		if e.st.Sample == nil && pre == e.bound {
			e.st.Sample = choices
		}
	}
	if !e.first {
		e.first = true
		er2 := runOnce(e.sc, e.threads, choices)
		if fmt.Sprint(er2.obs) != fmt.Sprint(er.obs) || len(er2.res.Choices) != len(er.res.Choices) {
			e.st.SelfCheck = "FAILED: replaying the first schedule gave different observations"
		} else {
			e.st.SelfCheck = "ok"
		}
	}
	preempt := 0
	for i, c := range er.res.Choices {
		if i >= len(prefix) {
			cost := preempt
			if c.SelfEnabled {
				cost++
			}
			if cost <= e.bound {
				for alt := 1; alt < c.Enabled; alt++ {
					child := append(append([]int{}, choices[:i]...), alt)
					if depth+1 == shardDepth && int(hashChoices(child))%e.n != e.w {
						continue
					}
					e.explore(child, depth+1)
					if e.st.Expired {
						return
					}
				}
			}
		}
		if c.SelfEnabled && c.Idx != 0 {
			preempt++
		}
	}
}

func findScenario(name string) *scenario {
	for i := range scenarios {
		if scenarios[i].Name == name {
			return &scenarios[i]
		}
	}
	return nil
}

// worker mode: vsched --worker <w> <n> <scenario> <threads> <bound> <seconds>
func workerMain(args []string) int {
	w, _ := strconv.Atoi(args[0])
	n, _ := strconv.Atoi(args[1])
	sc := findScenario(args[2])
	threads, _ := strconv.Atoi(args[3])
	bound, _ := strconv.Atoi(args[4])
	secs, _ := strconv.Atoi(args[5])
	if sc == nil {
		return 2
	}
	e := &explorer{sc: sc, threads: threads, bound: bound, w: w, n: n, deadline: time.Now().Add(time.Duration(secs) * time.Second)}
	e.st.Outcomes = map[string]int64{}
	baseline(sc, threads)
	newRaceReport() // anything the serial baseline produced is not attributed to a schedule
	e.explore(nil, 0)
	raw, _ := json.Marshal(e.st)
	fmt.Println("RESULT " + string(raw))
	if staticDir != "" {
		_ = os.RemoveAll(staticDir)
	}
	return 0
}

type plan struct {
	Scenario string
	Threads  int
	Bound    int
}

func c05Run(r *core.Run) {
	var plans []plan
	budget := 80 * time.Second
	if r.Thorough() {
		budget = 25 * time.Minute
		for _, sc := range scenarios {
			plans = append(plans, plan{sc.Name, 2, 3})
		}
		for _, sc := range scenarios {
			plans = append(plans, plan{sc.Name, 3, 2})
		}
	} else {
		for _, sc := range scenarios {
			plans = append(plans, plan{sc.Name, 2, 2})
		}
		for _, sc := range scenarios[:4] {
			plans = append(plans, plan{sc.Name, 3, 1})
		}
	}
	r.SetBudget(budget)
	r.Rule = "engine S: for every scenario (a fully set-up shared Flame, 2-3 managed threads each serving 1-2 requests) ALL interleavings with at most B preemptions are executed under the controlled scheduler (scheduling points: every sync / sync/atomic operation inside flamego via import-rewriting overlay, plus explicit points in the harness handlers and the spy writer); per schedule: every request's observation record (status, body, headers, parameters seen by each handler, injected request-scoped value, own-request / own-writer identity, built URLs) must equal the record of the same request served alone on a fresh instance, the race detector (kept sighted by a norace hand-off) must report nothing, no deadlock, no escaped panic; non-trivial = schedule with at least one preemption"
	r.Assumptions = []string{
		"preemption-bounded: schedules with more preemptions than the bound are not explored; context switches happen only at hooked operations (sufficient when every explored schedule is race-free)",
		"the shimmed sync.Pool is a deterministic LIFO behind a real mutex (slightly more happens-before than the real pool)",
		"third-party packages (charmbracelet/log) are not instrumented; they are reached with a discarding writer and never descheduled inside",
		"Go race detector's happens-before model and bounded shadow history are trusted; GOMAXPROCS=1 per worker",
	}
	self, _ := os.Executable()
	local := core.NewLocal()
	completed := map[string]interface{}{}
	nw := core.Workers
	for pi, pl := range plans {
		// what is left of the budget is shared evenly among the plans still to run
		perPlan := int(time.Until(r.Deadline).Seconds()) / (len(plans) - pi)
		if perPlan < 10 {
			perPlan = 10
		}
		if r.Expired() {
			completed[fmt.Sprintf("%s/threads=%d", pl.Scenario, pl.Threads)] = "not started (internal deadline)"
			continue
		}
		type wres struct {
			st  workerStats
			err string
		}
		results := make([]wres, nw)
		done := make(chan int, nw)
		for w := 0; w < nw; w++ {
			go func(w int) {
				defer func() { done <- w }()
				cmd := exec.Command(self, "--worker", strconv.Itoa(w), strconv.Itoa(nw), pl.Scenario, strconv.Itoa(pl.Threads), strconv.Itoa(pl.Bound), strconv.Itoa(perPlan))
				cmd.Env = append(os.Environ(), "GOMAXPROCS=1")
				var out, errb bytes.Buffer
				cmd.Stdout, cmd.Stderr = &out, &errb
				err := cmd.Run()
				sc := bufio.NewScanner(&out)
				sc.Buffer(make([]byte, 1<<20), 1<<26)
				found := false
				for sc.Scan() {
					if strings.HasPrefix(sc.Text(), "RESULT ") {
						if json.Unmarshal([]byte(strings.TrimPrefix(sc.Text(), "RESULT ")), &results[w].st) == nil {
							found = true
						}
					}
				}
				if err != nil || !found {
					results[w].err = fmt.Sprintf("worker %d failed: %v\n%s", w, err, tail(errb.String(), 2000))
				}
			}(w)
		}
		for i := 0; i < nw; i++ {
			<-done
		}
		var execs, points, decisions, preempted int64
		maxDec := 0
		expired := false
		selfcheck := "ok"
		for w := range results {
			if results[w].err != "" {
				fmt.Fprintln(os.Stderr, "INFRA:", results[w].err)
				os.Exit(2)
			}
			st := results[w].st
			execs += st.Executions
			points += st.Points
			decisions += st.Decisions
			preempted += st.Preempted
			if st.MaxDecisions > maxDec {
				maxDec = st.MaxDecisions
			}
			expired = expired || st.Expired
			if st.SelfCheck != "ok" && st.SelfCheck != "" {
				selfcheck = st.SelfCheck
			}
			for k, v := range st.Outcomes {
				local.Classes[k] += v
			}
			for _, v := range st.Violations {
				local.Violate(v.Key, v.Desc, v.Case)
			}
			if st.ExtraGoroutines > 0 {
				r.NotExhaustive(fmt.Sprintf("the serve path spawned %d goroutine(s) outside the scheduler in %s", st.ExtraGoroutines, pl.Scenario))
			}
			if w == 0 && st.Sample != nil {
				local.Sample(schedCase{Scenario: pl.Scenario, Threads: pl.Threads, Choices: st.Sample})
			}
		}
		if selfcheck != "ok" {
			fmt.Fprintln(os.Stderr, "INFRA: determinism self-check failed in", pl.Scenario, selfcheck)
			os.Exit(2)
		}
		local.States += execs
		local.Evals += execs
		local.Traces += execs
		local.Transitions += decisions
		local.NonTrivial += preempted
		local.Extra["scheduling_points_crossed"] += points
		st := fmt.Sprintf("bound %d complete: %d schedules, up to %d decisions per schedule", pl.Bound, execs, maxDec)
		if expired {
			st = fmt.Sprintf("bound %d NOT complete (internal deadline or violation cap): %d schedules", pl.Bound, execs)
			r.NotExhaustive("internal deadline in " + pl.Scenario)
		}
		completed[fmt.Sprintf("%s/threads=%d", pl.Scenario, pl.Threads)] = st
	}
	r.Bounds["per_scenario"] = completed
	r.Bounds["workers"] = nw
	r.Merge(local)
}

func tail(s string, n int) string {
	if len(s) > n {
		return s[len(s)-n:]
	}
	return s
}

func c05Replay(raw json.RawMessage) (bool, string) {
	var c schedCase
	if err := json.Unmarshal(raw, &c); err != nil {
		return false, err.Error()
	}
	sc := findScenario(c.Scenario)
	if sc == nil {
		return false, "unknown scenario"
	}
	baseline(sc, c.Threads)
	newRaceReport()
	er := runOnce(sc, c.Threads, c.Choices)
	bad, kind := judge(sc, c.Threads, er)
	if staticDir != "" {
		_ = os.RemoveAll(staticDir)
	}
	if kind == "HARNESS-nondeterminism" {
		return false, bad
	}
	return bad != "", bad
}

func main() {
	if len(os.Args) > 1 && os.Args[1] == "--worker" {
		os.Exit(workerMain(os.Args[2:]))
	}
	_ = filepath.Join
	core.Register(&core.Check{ID: "C05", Run: c05Run, Replay: c05Replay})
	os.Exit(core.Main(os.Args[1:]))
}
