package main

import (
	"os"

	_ "github.com/flamego/flamego/verifharness/checks"
	"github.com/flamego/flamego/verifharness/core"
)

func main() { os.Exit(core.Main(os.Args[1:])) }
