package main

import (
	"os"
	"runtime/debug"

	_ "github.com/flamego/flamego/verifharness/checks"
	"github.com/flamego/flamego/verifharness/core"
)

func main() {
	debug.SetGCPercent(800) // enumeration loops allocate small short-lived objects on 16 workers
	os.Exit(core.Main(os.Args[1:]))
}
