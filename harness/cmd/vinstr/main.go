// vinstr generates the `go build -overlay` file for engine S from /repo's current working tree:
// every non-test .go file that imports sync or sync/atomic gets a copy whose import PATH points at
// the scheduler shims while the local NAME stays (so no other byte of the code changes), and the
// three shim packages are mapped into the flamego module as virtual directories under internal/.
//
//	vinstr <repo> <shim-src-dir> <out-dir>   writes <out-dir>/overlay.json
package main

import (
	"bytes"
	"encoding/json"
	"fmt"
	"go/ast"
	"go/format"
	"go/parser"
	"go/token"
	"os"
	"path/filepath"
	"strings"
)

const modPath = "github.com/flamego/flamego"

func main() {
	if len(os.Args) != 4 {
		fmt.Fprintln(os.Stderr, "usage: vinstr <repo> <shim-src-dir> <out-dir>")
		os.Exit(2)
	}
	repo, shims, out := os.Args[1], os.Args[2], os.Args[3]
	_ = os.RemoveAll(out)
	if err := os.MkdirAll(out, 0o755); err != nil {
		die(err)
	}
	replace := map[string]string{}
	rewritten := 0
	err := filepath.Walk(repo, func(p string, info os.FileInfo, err error) error {
		if err != nil {
			return err
		}
		if info.IsDir() {
			if n := info.Name(); n == ".git" || n == "testdata" || n == "node_modules" {
				return filepath.SkipDir
			}
			return nil
		}
		if !strings.HasSuffix(p, ".go") || strings.HasSuffix(p, "_test.go") {
			return nil
		}
		fset := token.NewFileSet()
		f, err := parser.ParseFile(fset, p, nil, parser.ParseComments)
		if err != nil {
			return fmt.Errorf("%s: %v", p, err)
		}
		changed := false
		for _, imp := range f.Imports {
			var to, name string
			switch imp.Path.Value {
			case `"sync"`:
				to, name = modPath+"/internal/verifsync", "sync"
			case `"sync/atomic"`:
				to, name = modPath+"/internal/verifatomic", "atomic"
			default:
				continue
			}
			if imp.Name == nil {
				imp.Name = ast.NewIdent(name)
			}
			imp.Path.Value = `"` + to + `"`
			changed = true
		}
		if !changed {
			return nil
		}
		var buf bytes.Buffer
		if err := format.Node(&buf, fset, f); err != nil {
			return err
		}
		rel, _ := filepath.Rel(repo, p)
		dst := filepath.Join(out, "src", rel)
		if err := os.MkdirAll(filepath.Dir(dst), 0o755); err != nil {
			return err
		}
		if err := os.WriteFile(dst, buf.Bytes(), 0o644); err != nil {
			return err
		}
		replace[p] = dst
		rewritten++
		return nil
	})
	if err != nil {
		die(err)
	}
	for _, pkg := range []string{"verifsched", "verifsync", "verifatomic"} {
		files, _ := filepath.Glob(filepath.Join(shims, pkg, "*.go"))
		if len(files) == 0 {
			die(fmt.Errorf("no shim sources for %s under %s", pkg, shims))
		}
		for _, src := range files {
			replace[filepath.Join(repo, "internal", pkg, filepath.Base(src))] = src
		}
	}
	raw, _ := json.MarshalIndent(map[string]interface{}{"Replace": replace}, "", " ")
	if err := os.WriteFile(filepath.Join(out, "overlay.json"), raw, 0o644); err != nil {
		die(err)
	}
	fmt.Printf("vinstr: %d files rewritten (sync / sync/atomic imports), 3 shim packages mapped\n", rewritten)
}

func die(err error) {
	fmt.Fprintln(os.Stderr, "vinstr:", err)
	os.Exit(2)
}
