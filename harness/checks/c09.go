package checks

import (
	"encoding/json"
	"fmt"
	"io"
	"net/http"
	"regexp"
	"strings"
	"sync"
	"time"

	"github.com/flamego/flamego"
	"github.com/flamego/flamego/verifharness/core"
	"github.com/flamego/flamego/verifharness/ref"
)

// ---- C09: header constraints gate every form of a route (engine B over histories) ----

var c09Routes = []string{"/s", "/o/?t", "/d/{x}", "/e/?{x}", "/{m: **}", "/o/?{y}", "/o/t"}
var c09APIs = []string{"Get", "Routes(GET,POST)", "Routes(GET;POST)", "Any", "Post"}
var c09HdrSets = [][]string{{}, {"X-K", "^v$"}, {"X-K", "", "Y-K", "b"}, {"X-K", ""}}
var c09ReqHdrs = []map[string]string{{}, {"X-K": "v"}, {"X-K": "w"}, {"X-K": ""}, {"X-K": "v", "Y-K": "b"}, {"X-K": "w", "Y-K": "xbx"}, {"X-K": "", "Y-K": "b"},
	// a header sent in several fields (the values are separated by 0x1f here): the first field is the one http.Header.Get reports
	{"X-K": "v\x1fw"}, {"X-K": "w\x1fv"}, {"X-K": "\x1f"},
	// two constrained headers whose expressions disagree on each other's values, straight and crossed
	{"X-K": "v", "Y-K": "w"}, {"X-K": "w", "Y-K": "v"}, {"X-K": "vw"}, {"X-K": "V"}, {"X-K": "7"}}

// c09HdrSetsRespec: the constraint sets of the re-specification histories (more than the BFS alphabet)
var c09HdrSetsRespec = append(append([][]string{}, c09HdrSets...), []string{"X-K", "^v$", "Y-K", "^w$"},
	// one header constrained twice, under two spellings of its name: both expressions gate the route
	[]string{"x-k", "^v", "X-K", "w$"},
	// expressions that differ from earlier ones in the case of a letter only (^v$ / ^V$, \d / \D)
	[]string{"X-K", "^V$"}, []string{"X-K", "^\\D$"},
	// a call that is refused (the second expression does not compile): the set given before stays as it was
	[]string{"Y-K", "b", "X-K", "("})
var c09Paths = []string{"/s", "/o", "/o/t", "/o/u", "/d/v", "/e", "/e/v", "/zz", "/o/", "//s", "/d/v/w", "/o/t/u", "/", "/r"}
var c09Methods = []string{"GET", "POST", "PUT"}

const c09MaxRegs = 3

type c09Op struct {
	Kind   string   `json:"op"` // "reg" | "headers"
	Route  string   `json:"route,omitempty"`
	API    string   `json:"api,omitempty"`
	Target int      `json:"registration_index,omitempty"`
	Pairs  []string `json:"header_pairs,omitempty"`
}

func c09Ops() []c09Op {
	var ops []c09Op
	for _, r := range c09Routes {
		for _, a := range c09APIs {
			ops = append(ops, c09Op{Kind: "reg", Route: r, API: a})
		}
	}
	for i := 0; i < c09MaxRegs; i++ {
		for _, h := range c09HdrSets {
			ops = append(ops, c09Op{Kind: "headers", Target: i, Pairs: h})
		}
	}
	return ops
}

func c09APIMethods(api string) []string {
	switch api {
	case "Get":
		return []string{"GET"}
	case "Post":
		return []string{"POST"}
	case "Routes(GET,POST)", "Routes(GET;POST)", "Routes(get,post)", "Routes(GET;post)":
		return []string{"GET", "POST"}
	case "Any":
		return c08KnownMethods
	}
	return nil
}

type c09Reg struct {
	route   string
	methods []string
	handle  *flamego.Route
	pairs   []string
}

type c09World struct {
	inter bool
	f     *flamego.Flame
	regs  []*c09Reg
	hit   int
	par   map[string]string
	// bad: a Headers() call was accepted although it had to be refused, or the other way round
	bad string
}

// c09Apply executes ops on a fresh Flame; ok=false when an op is not enabled (registration
// rejected, header target missing, too many registrations).
func c09Apply(ops []c09Op) (w *c09World, ok bool) { return c09ApplyI(ops, false) }

// c09ApplyI: with interleave, requests are served after every operation (they must not change what
// later registrations and constraints mean).
func c09ApplyI(ops []c09Op, interleave bool) (w *c09World, ok bool) {
	w = &c09World{f: flamego.NewWithLogger(io.Discard), hit: -1, inter: interleave}
	for oi, op := range ops {
		if interleave && oi > 0 {
			for _, method := range c09Methods {
				for _, path := range c09Paths {
					for _, hdr := range c09ReqHdrs {
						c09Serve(w, method, path, hdr)
					}
				}
			}
		}
		switch op.Kind {
		case "reg":
			if len(w.regs) >= c09MaxRegs {
				return w, false
			}
			idx := len(w.regs)
			h := func(c flamego.Context) {
				w.hit = idx
				w.par = map[string]string{}
				for k, v := range c.Params() {
					w.par[k] = v
				}
				c.ResponseWriter().WriteHeader(200)
			}
			var handle *flamego.Route
			pan := func() (pv interface{}) {
				defer func() { pv = recover() }()
				switch op.API {
				case "Get":
					handle = w.f.Get(op.Route, h)
				case "Post":
					handle = w.f.Post(op.Route, h)
				case "Routes(GET,POST)":
					handle = w.f.Routes(op.Route, "GET,POST", h)
				case "Routes(GET;POST)":
					handle = w.f.Routes(op.Route, "GET", "POST", h)
				case "Routes(get,post)": // method names are case-insensitive at registration
					handle = w.f.Routes(op.Route, "get,post", h)
				case "Routes(GET;post)":
					handle = w.f.Routes(op.Route, "GET", "post", h)
				case "Any":
					handle = w.f.Any(op.Route, h)
				}
				return nil
			}()
			if pan != nil {
				return w, false
			}
			w.regs = append(w.regs, &c09Reg{route: op.Route, methods: c09APIMethods(op.API), handle: handle})
		case "headers":
			if op.Target >= len(w.regs) {
				return w, false
			}
			mustRefuse := len(op.Pairs)%2 != 0
			for i := 1; i < len(op.Pairs); i += 2 {
				if _, err := regexp.Compile(op.Pairs[i]); err != nil {
					mustRefuse = true
				}
			}
			refused := func() (pv interface{}) {
				defer func() { pv = recover() }()
				w.regs[op.Target].handle.Headers(op.Pairs...)
				return nil
			}()
			switch {
			case refused == nil && mustRefuse:
				w.bad = fmt.Sprintf("Headers(%q) was accepted", op.Pairs)
			case refused != nil && !mustRefuse:
				w.bad = fmt.Sprintf("Headers(%q) was refused: %v", op.Pairs, refused)
			case refused == nil:
				w.regs[op.Target].pairs = op.Pairs
			}
		}
	}
	return w, true
}

func c09Eligible(pairs []string, hdr map[string]string) bool {
	for i := 0; i+1 < len(pairs); i += 2 {
		v := hdr[http.CanonicalHeaderKey(pairs[i])] // as http.Header.Get looks it up
		if j := strings.IndexByte(v, 0x1f); j >= 0 {
			v = v[:j] // several fields: the first one
		}
		if v == "" {
			return false
		}
		if !regexp.MustCompile(pairs[i+1]).MatchString(v) {
			return false
		}
	}
	return true
}

func c09Serve(w *c09World, method, path string, hdr map[string]string) (hit int, par map[string]string, status int, pan interface{}) {
	w.hit, w.par = -1, nil
	spy := &c01Spy{hdr: http.Header{}}
	req := newReq(method, path)
	for k, v := range hdr {
		req.Header[http.CanonicalHeaderKey(k)] = strings.Split(v, "\x1f")
	}
	func() {
		defer func() { pan = recover() }()
		w.f.ServeHTTP(spy, req)
	}()
	return w.hit, w.par, spy.code, pan
}

// c09Expected: documented priority over the registrations eligible for the request's headers.
func c09Expected(m *ref.Matcher, w *c09World, method, path string, hdr map[string]string) int {
	trie := ref.NewTrie()
	var regOf []int
	for i, rg := range w.regs {
		covers := false
		for _, mm := range rg.methods {
			if mm == method {
				covers = true
			}
		}
		if !covers {
			continue
		}
		trie.Add(ref.MustParse(rg.route))
		regOf = append(regOf, i)
	}
	res := trie.Match(m, ref.SplitPath(path), func(t *ref.Term) bool {
		return c09Eligible(w.regs[regOf[t.Route]].pairs, hdr)
	})
	if !res.Found {
		return -1
	}
	return regOf[res.Route]
}

type c09Case struct {
	Interleaved bool              `json:"requests_served_after_every_operation,omitempty"`
	Repeat      int               `json:"request_served_this_many_times_in_a_row,omitempty"`
	Ops         []c09Op           `json:"history"`
	Other       []c09Op           `json:"other_history_reaching_the_same_state,omitempty"`
	Method      string            `json:"request_method"`
	Path        string            `json:"path"`
	Headers     map[string]string `json:"request_headers"`
}

func c09Key(w *c09World, kind string, want int, method string) string {
	shape := "none"
	if want >= 0 {
		shape = w.regs[want].route
	}
	return fmt.Sprintf("%s/expected-route=%s/method=%s", kind, shape, method)
}

// c09Probe serves the whole probe set on w; returns a digest of the answers.
func c09Probe(m *ref.Matcher, w *c09World, ops []c09Op, l *core.Local) string {
	return c09ProbeH(m, w, ops, l, c09ReqHdrs)
}

// c09ProbeH: the probe set over the given request header sets.
func c09ProbeH(m *ref.Matcher, w *c09World, ops []c09Op, l *core.Local, reqHdrs []map[string]string) string {
	var dig strings.Builder
	if w.bad != "" {
		l.Violate("headers-call-verdict", w.bad, c09Case{Ops: ops})
		return "refused"
	}
	for _, method := range c09Methods {
		for _, path := range c09Paths {
			for _, hdr := range reqHdrs {
				l.Evals++
				hit, _, status, pan := c09Serve(w, method, path, hdr)
				cs := c09Case{Ops: ops, Method: method, Path: path, Headers: hdr, Interleaved: w.inter}
				// the same request again, twice: eligibility is a function of the constraints and the request,
				// not of what was asked before
				for rep := 2; rep <= 3 && pan == nil; rep++ {
					h2, _, s2, p2 := c09Serve(w, method, path, hdr)
					if p2 != nil || h2 != hit || s2 != status {
						cs.Repeat = rep
						l.Violate(fmt.Sprintf("repeated-request-answered-differently/method=%s", method),
							fmt.Sprintf("request %s %q headers %v served %d times in a row: first registration #%d status %d, then #%d status %d (panic %v)", method, path, hdr, rep, hit, status, h2, s2, p2), cs)
						break
					}
				}
				cs.Repeat = 0
				if pan != nil {
					l.Violate("panic", fmt.Sprintf("ServeHTTP panicked: %v", pan), cs)
					continue
				}
				want := c09Expected(m, w, method, path, hdr)
				fmt.Fprintf(&dig, "%d,", hit)
				gated := false
				for _, rg := range w.regs {
					if len(rg.pairs) > 0 {
						gated = true
					}
				}
				if gated {
					l.NonTrivial++
				}
				if hit != want {
					kind := "wrong-route"
					if want < 0 || (hit >= 0 && !c09Eligible(w.regs[hit].pairs, hdr)) {
						kind = "gated-route-served"
					} else if hit < 0 {
						kind = "eligible-route-not-served"
					}
					desc := fmt.Sprintf("request %s %q headers %v ran registration #%d, expected #%d (-1 = not found)", method, path, hdr, hit, want)
					l.Violate(c09Key(w, kind, hit, method), desc, cs)
					l.Class("mismatch")
					continue
				}
				if want < 0 {
					if status != 404 {
						l.Violate("notfound-status", fmt.Sprintf("nothing eligible but status %d", status), cs)
					}
					if gated {
						l.Class("notfound(with gated routes)")
					} else {
						l.Class("notfound")
					}
				} else if len(w.regs[want].pairs) > 0 {
					l.Class("served:gated-route-eligible")
				} else if gated {
					l.Class("served:ungated-route-while-others-gated")
				} else {
					l.Class("served:no-constraints")
				}
			}
		}
	}
	return dig.String()
}

func c09StateKey(w *c09World) string {
	var b strings.Builder
	for _, rg := range w.regs {
		fmt.Fprintf(&b, "%s|%v|%v;", rg.route, rg.methods, rg.pairs)
	}
	return b.String()
}

func c09Run(r *core.Run) {
	ops := c09Ops()
	depth := 3
	r.SetBudget(70 * time.Second)
	if r.Thorough() {
		depth = 4
		r.SetBudget(40 * time.Minute)
	}
	r.Rule = fmt.Sprintf("engine B: BFS over histories of Reg(route,api) and Headers(i,set) on a fresh Flame (state = shortest history, successor = replay + one op; key = registrations in order with their current constraint sets); after every transition the full probe set (%d methods x %d paths x %d request header sets, each served three times; for histories of one and three operations also interleaved with the operations) is served", len(c09Methods), len(c09Paths), len(c09ReqHdrs)) + " and compared with the documented priority restricted to eligible registrations; a state reached again by another history must answer the probe set identically; non-trivial = probe served while at least one registration carries constraints"
	r.Bounds["depth"] = depth
	r.Bounds["ops"] = len(ops)
	r.Bounds["max_registrations"] = c09MaxRegs
	r.Bounds["routes"] = c09Routes
	r.Bounds["apis"] = c09APIs
	r.Assumptions = []string{"AutoHead is off (its HEAD twin is a separate flat registration by C11; not asserted here)", "of a header sent in several fields the first field is the value (http.Header.Get)"}
	var mu sync.Mutex
	digests := map[string]string{}
	firstHist := map[string][]c09Op{}
	matchers := sync.Pool{New: func() interface{} { return ref.NewMatcher() }}
	step := func(hist []int, l *core.Local) (string, bool) {
		hops := make([]c09Op, len(hist))
		for i, h := range hist {
			hops[i] = ops[h]
		}
		inter := len(hist) >= 2 && (hist[0]+hist[len(hist)-1])%3 == 0
		w, ok := c09ApplyI(hops, inter)
		if !ok {
			return "", false
		}
		if inter {
			l.Extra["histories_with_requests_after_every_operation"]++
		}
		m := matchers.Get().(*ref.Matcher)
		defer matchers.Put(m)
		// quick: the BFS serves the first eight request header sets (the re-specification histories serve all)
		bfsHdrs := c09ReqHdrs
		if !r.Thorough() {
			bfsHdrs = c09ReqHdrs[:8]
		}
		dig := c09ProbeH(m, w, hops, l, bfsHdrs)
		key := c09StateKey(w)
		mu.Lock()
		old, seen := digests[key]
		if !seen {
			digests[key] = dig
			firstHist[key] = hops
		}
		other := firstHist[key]
		mu.Unlock()
		if seen && old != dig {
			l.Violate("history-dependent-outcome", "two histories reaching the same registrations and constraint sets answer the probe set differently: "+key, c09Case{Ops: hops, Other: other})
		}
		if len(hist) == depth && len(hist)%2 == 1 {
			l.Sample(hops)
		}
		return key, true
	}
	// the small dedicated tables first, so that the search cannot starve them of their time
	c09Expressions(r)
	b := &core.BFS{NumOps: len(ops), MaxDepth: depth, Step: step, Run: r, Dedup: true}
	s, t, d := b.Search()
	loc := core.NewLocal()
	loc.States, loc.Transitions = s, t
	r.Merge(loc)
	r.Notes["depth_completed"] = d
	if d < depth {
		r.NotExhaustive("internal deadline")
	}
	c09Respecify(r)
}

// c09Exprs: constraint expressions of every syntactic class (a header value is eligible when the expression,
// as a regular expression, matches anywhere in it): plain literals, case folding (flag and group), classes,
// alternation, anchors, expressions that match the empty string, word boundaries, groups, escapes.
var c09Exprs = []string{"v", "V", "vw", "(?i)v", "(?i)V", "(?i)vw", "(?i)^vw$", "(?i:v)w", "[Vv]", "[Vv]w", "[^v]", "v|w", "^(v|w)$", "v*", "^$", "^.$", "..", "(?i)[a-u]", `\bv\b`, `\Av\z`, "(v)(w)", `\x76`, `\Qv\E`, "(?i)", "v?w", "(?-i)v", "(?i)(?-i:v)w", "^v", "v$", `v\.w`, "(?i)v.w"}
var c09ExprValues = []string{"v", "V", "w", "W", "vw", "VW", "Vw", "vW", "xvx", "xVx", "v w", "v.w", "V.W", "vxw", "", "x", "\x1fv", "vv", "wv"}

// c09Expressions: every expression class x every header value on a route of each kind (both forms of the
// optional ones), alone and above a catch-all that takes what the gated route must not.
func c09Expressions(r *core.Run) {
	prefixes := [][]c09Op{
		{{Kind: "reg", Route: "/s", API: "Get"}},
		{{Kind: "reg", Route: "/o/?t", API: "Get"}},
		{{Kind: "reg", Route: "/d/{x}", API: "Get"}},
		{{Kind: "reg", Route: "/e/?{x}", API: "Routes(GET,POST)"}, {Kind: "reg", Route: "/{m: **}", API: "Any"}},
		{{Kind: "reg", Route: "/?r", API: "Get"}},
		{{Kind: "reg", Route: "/d/{x: /(v|w)+/}", API: "Get"}, {Kind: "reg", Route: "/d/{y}", API: "Get"}},
	}
	var hdrs []map[string]string
	hdrs = append(hdrs, map[string]string{}, map[string]string{"Y-K": "v"})
	for _, v := range c09ExprValues {
		hdrs = append(hdrs, map[string]string{"X-K": v})
	}
	r.Bounds["constraint_expressions"] = fmt.Sprintf("%d expressions x %d header values x %d registration prefixes", len(c09Exprs), len(hdrs), len(prefixes))
	type job struct {
		pre  []c09Op
		expr string
	}
	var jobs []job
	for _, pre := range prefixes {
		for _, e := range c09Exprs {
			jobs = append(jobs, job{pre, e})
		}
	}
	r.Parallel(func(wk, nw int, l *core.Local) {
		m := ref.NewMatcher()
		for ji := wk; ji < len(jobs); ji += nw {
			if r.Expired() {
				return
			}
			j := jobs[ji]
			hist := append(append([]c09Op{}, j.pre...), c09Op{Kind: "headers", Target: 0, Pairs: []string{"X-K", j.expr}})
			w, ok := c09Apply(hist)
			if !ok {
				l.Violate("expression-refused", fmt.Sprintf("Headers(\"X-K\", %q) refused although the expression is a valid regular expression", j.expr), c09Case{Ops: hist})
				continue
			}
			l.States++
			l.Transitions++
			l.Traces++
			l.Extra["constraint_expression_tables"]++
			c09ProbeH(m, w, hist, l, hdrs)
		}
	})
	if r.Expired() {
		r.NotExhaustive("internal deadline (constraint expressions)")
	}
}

// c09Prefixes are the registrations under the re-specification histories: one route, and two routes that
// compete for some request (so that a constraint set leaking from one to the other changes an answer).
var c09Prefixes = [][]c09Op{
	{{Kind: "reg", Route: "/s", API: "Get"}},
	{{Kind: "reg", Route: "/o/?t", API: "Any"}},
	{{Kind: "reg", Route: "/e/?{x}", API: "Routes(GET,POST)"}},
	{{Kind: "reg", Route: "/s", API: "Routes(get,post)"}},
	{{Kind: "reg", Route: "/d/{x}", API: "Routes(GET;post)"}},
	{{Kind: "reg", Route: "/s", API: "Get"}, {Kind: "reg", Route: "/d/{x}", API: "Get"}},
	{{Kind: "reg", Route: "/o/?t", API: "Get"}, {Kind: "reg", Route: "/{m: **}", API: "Any"}},
	{{Kind: "reg", Route: "/o/t", API: "Routes(GET;POST)"}, {Kind: "reg", Route: "/o/?{y}", API: "Get"}},
	// last segments of every regex shape (an expression with groups of its own, several binds in one segment)
	// above a placeholder that takes what they must not
	{{Kind: "reg", Route: "/d/{x: /(v|w)+/}", API: "Get"}, {Kind: "reg", Route: "/d/{y}", API: "Get"}},
	{{Kind: "reg", Route: "/e/?{x: /(v)|(w)/}", API: "Routes(GET,POST)"}, {Kind: "reg", Route: "/{m: **}", API: "Any"}},
	{{Kind: "reg", Route: "/d/{x: /[vw]/}{z: /(x)?/}", API: "Get"}, {Kind: "reg", Route: "/d/{y}", API: "Any"}},
	// a route whose only segment is optional (its short form is the root), alone and above a catch-all
	{{Kind: "reg", Route: "/?r", API: "Get"}},
	{{Kind: "reg", Route: "/?{x}", API: "Routes(GET,POST)"}, {Kind: "reg", Route: "/{m: **}", API: "Any"}},
	// two optional routes, the second one level below the first and named like its optional segment
	{{Kind: "reg", Route: "/o/?t", API: "Get"}, {Kind: "reg", Route: "/o/t/?u", API: "Get"}},
}

// c09Respecify: "specifying constraints again replaces the previous set" over longer histories than the
// BFS reaches: on each prefix, EVERY sequence of up to k Headers(i,set) operations, then the whole probe set.
func c09Respecify(r *core.Run) {
	kOne, kTwo := 3, 2
	if r.Thorough() {
		kOne, kTwo = 5, 4
	}
	r.Bounds["respecification_histories"] = fmt.Sprintf("%d registration prefixes x every sequence of <=%d (one route) / <=%d (two routes) Headers() calls over %d constraint sets", len(c09Prefixes), kOne, kTwo, len(c09HdrSetsRespec))
	type job struct {
		pre   []c09Op
		first c09Op
		k     int
	}
	var jobs []job
	hops := func(pre []c09Op) []c09Op {
		var out []c09Op
		for i := range pre {
			for _, h := range c09HdrSetsRespec {
				out = append(out, c09Op{Kind: "headers", Target: i, Pairs: h})
			}
		}
		return out
	}
	for _, pre := range c09Prefixes {
		k := kOne
		if len(pre) == 2 {
			k = kTwo
		}
		for _, f := range hops(pre) {
			jobs = append(jobs, job{pre, f, k})
		}
	}
	r.Parallel(func(wk, nw int, l *core.Local) {
		m := ref.NewMatcher()
		for ji := wk; ji < len(jobs); ji += nw {
			j := jobs[ji]
			alphabet := hops(j.pre)
			var rec func(seq []c09Op)
			rec = func(seq []c09Op) {
				if r.Expired() {
					return
				}
				hist := append(append([]c09Op{}, j.pre...), seq...)
				w, ok := c09Apply(hist)
				if !ok {
					return
				}
				l.States++
				l.Transitions++
				l.Traces++
				l.Extra["respecification_histories"]++
				c09Probe(m, w, hist, l)
				if len(seq) == j.k {
					return
				}
				for _, o := range alphabet {
					rec(append(seq[:len(seq):len(seq)], o))
				}
			}
			rec([]c09Op{j.first})
		}
	})
	if r.Expired() {
		r.NotExhaustive("internal deadline (re-specification histories)")
	}
}

func c09Replay(raw json.RawMessage) (bool, string) {
	var c c09Case
	if err := json.Unmarshal(raw, &c); err != nil {
		return false, err.Error()
	}
	w, ok := c09ApplyI(c.Ops, c.Interleaved)
	if !ok {
		return false, "history not executable as recorded"
	}
	if w.bad != "" {
		return true, w.bad
	}
	m := ref.NewMatcher()
	if c.Method == "" {
		// history-dependent outcome: both histories must answer the probe set identically
		w2, ok2 := c09Apply(c.Other)
		if !ok2 {
			return false, "other history not executable as recorded"
		}
		l := core.NewLocal()
		d1 := c09Probe(m, w, c.Ops, l)
		d2 := c09Probe(m, w2, c.Other, l)
		if d1 != d2 {
			return true, "the two histories reach the same registrations and constraints but answer the probe set differently"
		}
		return false, ""
	}
	if c.Repeat > 1 {
		h1, _, s1, _ := c09Serve(w, c.Method, c.Path, c.Headers)
		for rep := 2; rep <= c.Repeat; rep++ {
			h2, _, s2, p2 := c09Serve(w, c.Method, c.Path, c.Headers)
			if p2 != nil || h2 != h1 || s2 != s1 {
				return true, fmt.Sprintf("the same request served %d times in a row is answered differently (#%d/%d then #%d/%d)", rep, h1, s1, h2, s2)
			}
		}
		return false, ""
	}
	hit, _, status, pan := c09Serve(w, c.Method, c.Path, c.Headers)
	if pan != nil {
		return true, fmt.Sprintf("ServeHTTP panicked: %v", pan)
	}
	want := c09Expected(m, w, c.Method, c.Path, c.Headers)
	if hit != want {
		return true, fmt.Sprintf("ran registration #%d, expected #%d", hit, want)
	}
	if want < 0 && status != 404 {
		return true, fmt.Sprintf("nothing eligible but status %d", status)
	}
	return false, ""
}

func init() {
	core.Register(&core.Check{ID: "C09", Run: c09Run, Replay: c09Replay})
}
