package checks

import (
	"encoding/json"
	"fmt"
	"io"
	"net/http"
	"strings"
	"time"

	"github.com/flamego/flamego"
	"github.com/flamego/flamego/verifharness/core"
	"github.com/flamego/flamego/verifharness/ref"
)

// ---- C07: serving is total: exactly one chain, never a routing panic (engine E) ----

// c07HarnessBug is the panic value for a route set whose own expectations are wrong.
type c07HarnessBug string

type c07Route struct {
	Method string   `json:"method"` // one of the nine or "*"
	Text   string   `json:"route"`
	Hdr    []string `json:"header_pairs,omitempty"`
	// Rejected: an attempt that the router refuses (the registration panic is recovered and the application
	// goes on): it must leave the routes registered before it as they were
	Rejected bool `json:"rejected_attempt,omitempty"`
	// Then: further Headers() calls on the route after the first, in order; the last one counts
	Then [][]string `json:"later_header_calls,omitempty"`
}

var c07Sets = [][]c07Route{
	{},
	{{Method: "GET", Text: "/"}, {Method: "GET", Text: "/a"}, {Method: "GET", Text: "/a/b"}},
	{{Method: "GET", Text: "/{x}"}, {Method: "GET", Text: "/a/{y}"}},
	{{Method: "GET", Text: "/{r: /[a2]+/}"}, {Method: "GET", Text: "/a/{s: /a|z/}/c"}},
	{{Method: "GET", Text: "/a/{m: **}"}},
	{{Method: "GET", Text: "/{m: **, capture: 2}/z"}},
	{{Method: "GET", Text: "/a/{m: **, capture: 2}"}, {Method: "GET", Text: "/{n: **, capture: 1}"}},
	{{Method: "GET", Text: "/a/?b"}, {Method: "GET", Text: "/?{o}"}},
	{{Method: "GET", Text: "/a", Hdr: []string{"X-K", "^v$"}}, {Method: "GET", Text: "/a/{x}", Hdr: []string{"X-K", ""}}, {Method: "GET", Text: "/{m: **}"}},
	{{Method: "GET", Text: "/"}, {Method: "GET", Text: "/a"}, {Method: "GET", Text: "/{x}"}, {Method: "GET", Text: "/a/{m: **}"}, {Method: "GET", Text: "/a/b/?c"}, {Method: "GET", Text: "/{r: /[a.]+/}/z"}},
	{{Method: "GET", Text: "/a"}, {Method: "POST", Text: "/a"}, {Method: "*", Text: "/{x}"}, {Method: "HEAD", Text: "/a/{m: **}/z"}},
	{{Method: "GET", Text: "/a.{x}"}, {Method: "GET", Text: "/{x}.{y}"}, {Method: "GET", Text: "/a/{x}-{y}/?z"}},
	// a static route registered for all methods after an optional twin for GET only, with header
	// constraints (every method's leaf has its own standing in its own tree)
	{{Method: "GET", Text: "/a/?z"}, {Method: "*", Text: "/a/z", Hdr: []string{"X-K", "^v$"}}, {Method: "POST", Text: "/{m: **}"}},
	// the constrained header named in a non-canonical spelling
	{{Method: "GET", Text: "/a", Hdr: []string{"x-k", "^v$"}}, {Method: "GET", Text: "/{x}"}},
	// expressions with quoting (\Q..\E): self-contained, and one whose \Q is not closed inside its own
	// expression (if such a route is accepted, serving it must still not panic)
	{{Method: "GET", Text: `/{x: /(a)\Qz\E/}{y: /\Qb\E/}`}, {Method: "GET", Text: "/{p}"}},
	{{Method: "GET", Text: `/{x: /(a)\Q/}{y: /\Qb\E/}`}, {Method: "GET", Text: "/{p}"}},
	// regex segments in the middle of a route whose last (or only) bind expression has groups of its own
	{{Method: "GET", Text: "/{k: /(a|z)/}/z"}, {Method: "GET", Text: "/a/{y: /[a2]+/}-{e: /(a|z)(a)?/}/z"}, {Method: "GET", Text: "/{p}"}},
	// constraints specified again: cleared with an empty call, and replaced
	{{Method: "GET", Text: "/a", Hdr: []string{"X-K", "^v$"}, Then: [][]string{{}}}, {Method: "GET", Text: "/z/?z", Hdr: []string{"X-K", "^v$"}, Then: [][]string{{"X-K", "^w$"}, {}}}, {Method: "GET", Text: "/{m: **}", Hdr: []string{"X-K", ""}, Then: [][]string{{}, {"X-K", "^w$"}}}},
	// registration attempts that are refused, between accepted ones (bind reused deeper down the same
	// prefix, a duplicate, a second match-all): the accepted routes stay as they were
	{{Method: "GET", Text: "/a/{x}"}, {Method: "GET", Text: "/a/{x}/{y}/{y}", Rejected: true}, {Method: "GET", Text: "/a/{x}/z"}, {Method: "GET", Text: "/a/{x}/z", Rejected: true}, {Method: "GET", Text: "/{m: **}"}},
	{{Method: "GET", Text: "/a/b/z"}, {Method: "GET", Text: "/a/?b"}, {Method: "GET", Text: "/a", Rejected: true}, {Method: "GET", Text: "/a/{m: **}/{n: **}/z", Rejected: true}, {Method: "GET", Text: "/a/{m: **}/z"}},
	// two static leaves with the same literal (the long form of an optional route and the plain route registered
	// after it), constraints on the first: a request that fails them goes to the second
	{{Method: "GET", Text: "/a/?z", Hdr: []string{"X-K", "^v$"}}, {Method: "GET", Text: "/a/z"}, {Method: "GET", Text: "/{x}"}},
	{{Method: "GET", Text: "/?z", Hdr: []string{"X-K", "^v$"}}, {Method: "GET", Text: "/z", Hdr: []string{"X-K", "^w$"}}, {Method: "GET", Text: "/{m: **}"}},
	// one route text registered separately for two methods, constraints on one of the two registrations only
	{{Method: "GET", Text: "/a/{x}", Hdr: []string{"X-K", "^v$"}}, {Method: "POST", Text: "/a/{x}"}, {Method: "POST", Text: "/z/?z", Hdr: []string{"X-K", "^w$"}}, {Method: "GET", Text: "/z/?z"}, {Method: "HEAD", Text: "/a/{x}", Hdr: []string{"X-K", "^w$"}}},
	// a route whose only segment is optional (its short form is the root) registered after dynamic one-segment routes
	{{Method: "GET", Text: "/{x}"}, {Method: "GET", Text: "/?z"}},
	{{Method: "GET", Text: "/{m: **}"}, {Method: "GET", Text: "/?z"}, {Method: "GET", Text: "/a/{y: /[az]+/}"}},
	{{Method: "GET", Text: "/{x: /[az]+/}"}, {Method: "GET", Text: "/a"}, {Method: "GET", Text: "/?{y: /z+/}"}},
	// several binds in one route, for requests that carry a well-formed escape in one captured value and a
	// malformed one in another (each value is decoded, or left raw, on its own)
	{{Method: "GET", Text: "/a/{x}/{y}/{z}"}, {Method: "GET", Text: "/z/{x}-{y}-{w}"}, {Method: "GET", Text: "/{m: **}/z/{k}/{j}"}},
	// an optional route refused only because its short form is taken (the long form alone would be new): neither
	// form is served afterwards, and a later registration of the long form is served by its own chain
	{{Method: "GET", Text: "/a/?z"}, {Method: "GET", Text: "/a/?b", Rejected: true}, {Method: "GET", Text: "/z/?{x}"}, {Method: "GET", Text: "/z/?{m: **}", Rejected: true}},
	{{Method: "GET", Text: "/a"}, {Method: "GET", Text: "/a/z"}, {Method: "GET", Text: "/a/?{m: **}", Rejected: true}, {Method: "GET", Text: "/a/?b", Rejected: true}, {Method: "GET", Text: "/a/b"}},
	// one placeholder between literals whose ends overlap (the prefix ends as the suffix begins): a segment
	// shorter than both together carries the prefix and the suffix and still is no match
	{{Method: "GET", Text: "/az{x}za"}, {Method: "GET", Text: "/a/a{y}a"}, {Method: "GET", Text: "/z/aa{x}aa/?z"}, {Method: "GET", Text: "/a.{x}.a/z"}},
	// capture limits at the edges of their range (non-positive means unlimited)
	{{Method: "GET", Text: "/a/{m: **, capture: -1}/z"}, {Method: "GET", Text: "/{n: **, capture: 0}"}},
	{{Method: "GET", Text: "/a/{m: **, capture: 9223372036854775807}/z"}, {Method: "GET", Text: "/z/{n: **, capture: -9223372036854775808}"}},
	// a larger mixed table (many siblings of every kind under two prefixes)
	{{Method: "GET", Text: "/"}, {Method: "GET", Text: "/a"}, {Method: "GET", Text: "/a/"}, {Method: "GET", Text: "/a/b"}, {Method: "GET", Text: "/a/{x}"}, {Method: "GET", Text: "/a/{r: /[a2]+/}/z"}, {Method: "GET", Text: "/a/{m: **, capture: 3}/z"},
		{Method: "GET", Text: "/a/c/?d"}, {Method: "GET", Text: "/z/{p}/{q}"}, {Method: "GET", Text: "/z/{p}/{q}/{r: /z+/}"}, {Method: "GET", Text: "/z/{m: **}"}, {Method: "GET", Text: "/{x}/z"}, {Method: "GET", Text: "/{s: /[.?]+/}"},
		{Method: "POST", Text: "/a/{x}"}, {Method: "*", Text: "/z/?a"}, {Method: "HEAD", Text: "/{m: **, capture: 2}"}, {Method: "GET", Text: "/{p}.{q: /[az]+/}/{m: **}"}},
}

var c07Methods = []string{"GET", "POST", "HEAD", "BREW", "get", ""}

// c07RareMethods: the remaining methods the router knows; most route sets register none of them (a known
// method without any route is served by the not-found chain like any other miss). Served on every 8th path.
var c07RareMethods = []string{"PUT", "PATCH", "DELETE", "OPTIONS", "CONNECT", "TRACE",
	// unknown method tokens that, written in front of some path, read like a known method in front of a route
	"GE", "G", "GET/a", "GET/", "GET/a/b"}
var c07HdrSets = []map[string][]string{nil, {"X-K": {"v"}}, {"X-K": {"w"}}, {"X-K": {""}}, {"X-K": {"v", "w"}}, {"X-K": {"w", "v"}},
	// a header name present with no value at all, and one stored under a non-canonical key (invisible to Header.Get)
	{"X-K": nil}, {"X-K": {}}, {"x-k": {"v"}}}

type c07World struct {
	f      *flamego.Flame
	set    []c07Route
	refs   []ref.Route
	mw     int
	chain  []string
	params map[string]string
}

func c07Build(set []c07Route, userNotFound, withMW bool) *c07World {
	return c07BuildL(set, userNotFound, withMW, false)
}

// c07BuildL: with late, the last route, the user not-found chain and the middleware are installed
// only after the application has already served requests (the outcome must still be a function of
// what is registered at the time of the request).
func c07BuildL(set []c07Route, userNotFound, withMW, late bool) *c07World {
	w := &c07World{f: flamego.NewWithLogger(io.Discard), set: set}
	warm := func() {
		for _, p := range []string{"/", "/a", "/a/z", "/zz", "/a/b/c", ""} {
			for _, m := range []string{"GET", "POST", "BREW"} {
				func() {
					defer func() { _ = recover() }()
					w.f.ServeHTTP(&c01Spy{hdr: http.Header{}}, newReq(m, p))
				}()
			}
		}
		w.mw, w.chain, w.params = 0, nil, nil
	}
	if withMW && !late {
		w.f.Use(func() { w.mw++ })
	}
	if userNotFound && !late {
		w.f.NotFound(func(c flamego.Context) {
			w.chain = append(w.chain, "notfound")
			c.ResponseWriter().WriteHeader(404)
		})
	}
	var accepted []c07Route
	for i := range set {
		if late && i == len(set)-1 {
			warm()
		}
		rt := set[i]
		marker := func(c flamego.Context) {
			w.chain = append(w.chain, "route:"+rt.Method+" "+rt.Text)
			w.params = map[string]string{}
			for k, v := range c.Params() {
				w.params[k] = v
			}
		}
		final := func(c flamego.Context) { c.ResponseWriter().WriteHeader(200) }
		if rt.Rejected {
			func() {
				defer func() {
					if recover() == nil {
						panic(c07HarnessBug("an attempt marked as rejected was accepted: " + rt.Text))
					}
				}()
				w.f.Route(rt.Method, rt.Text, []flamego.Handler{marker, final})
			}()
			continue
		}
		h := w.f.Route(rt.Method, rt.Text, []flamego.Handler{marker, final})
		if len(rt.Hdr) > 0 {
			h.Headers(rt.Hdr...)
		}
		for _, later := range rt.Then {
			h.Headers(later...)
			rt.Hdr = later // the model looks at the constraints in force
		}
		accepted = append(accepted, rt)
		w.refs = append(w.refs, ref.MustParse(rt.Text))
	}
	w.set = accepted
	if late {
		if len(set) == 0 {
			warm()
		}
		if withMW {
			w.f.Use(func() { w.mw++ })
		}
		if userNotFound {
			w.f.NotFound(func(c flamego.Context) {
				w.chain = append(w.chain, "notfound")
				c.ResponseWriter().WriteHeader(404)
			})
		}
		warm()
	}
	return w
}

type c07Obs struct {
	panicked string
	mw       int
	chain    string
	status   int
	body     string
	params   string
}

func (w *c07World) serve(method, path string, hdr map[string][]string) c07Obs {
	w.mw, w.chain, w.params = 0, nil, nil
	spy := &c01Spy{hdr: http.Header{}}
	req := newReq(method, path)
	for k, v := range hdr {
		req.Header[k] = v
	}
	var pan interface{}
	func() {
		defer func() { pan = recover() }()
		w.f.ServeHTTP(spy, req)
	}()
	o := c07Obs{mw: w.mw, chain: strings.Join(w.chain, "+"), status: spy.code, body: spy.body.String(), params: fmtParams(w.params)}
	if pan != nil {
		o.panicked = fmt.Sprint(pan)
	}
	return o
}

func c07Expected(m *ref.Matcher, w *c07World, method, path string, hdr map[string][]string) string {
	known := false
	for _, k := range c08KnownMethods {
		if k == method {
			known = true
		}
	}
	if !known {
		return "notfound"
	}
	trie := ref.NewTrie()
	var idx []int
	for i, rt := range w.set {
		if rt.Method == method || rt.Method == "*" {
			trie.Add(w.refs[i])
			idx = append(idx, i)
		}
	}
	flat := map[string]string{}
	for k, v := range hdr {
		if len(v) > 0 {
			flat[k] = v[0]
		}
	}
	res := trie.Match(m, ref.SplitPath(path), func(t *ref.Term) bool { return c09Eligible(w.set[idx[t.Route]].Hdr, flat) })
	if !res.Found {
		return "notfound"
	}
	rt := w.set[idx[res.Route]]
	return "route:" + rt.Method + " " + rt.Text
}

type c07Case struct {
	Set          []c07Route          `json:"routes"`
	UserNotFound bool                `json:"user_notfound"`
	Middleware   bool                `json:"app_middleware"`
	Method       string              `json:"request_method"`
	PathHex      string              `json:"path_hex"`
	PathLen      int                 `json:"path_len"`
	Headers      map[string][]string `json:"headers,omitempty"`
}

func c07Judge(m *ref.Matcher, w *c07World, userNF, withMW bool, method, path string, hdr map[string][]string, twins ...*c07World) (bad, kind, class string) {
	o1 := w.serve(method, path, hdr)
	// the outcome is a function of the registered routes and the request alone: other instances built by
	// the same calls must answer the same
	for _, tw := range twins {
		if o := tw.serve(method, path, hdr); o != o1 {
			return fmt.Sprintf("two instances with the same registrations (one of them configured partly after it had served requests) answer differently: %+v vs %+v", o1, o), "instance-dependent", ""
		}
	}
	if o1.panicked != "" {
		return "ServeHTTP panicked: " + o1.panicked, "panic", ""
	}
	want := c07Expected(m, w, method, path, hdr)
	if withMW && o1.mw != 1 {
		return fmt.Sprintf("application middleware started %d times for one request", o1.mw), "chain-count", ""
	}
	got := o1.chain
	if got == "" {
		// default NotFound has no marker: recognised by its response
		if !userNF && o1.status == 404 && (o1.body == "404 page not found\n" || (method == "HEAD" && o1.body == "")) {
			got = "notfound"
		} else {
			got = "none"
		}
	}
	if got != want {
		k := "wrong-chain"
		if strings.Contains(got, "+") {
			k = "two-chains"
		}
		return fmt.Sprintf("ran chain %q, expected %q (status %d)", got, want, o1.status), k, ""
	}
	for rep := 0; rep < 2; rep++ {
		if o := w.serve(method, path, hdr); o != o1 {
			return fmt.Sprintf("repeating the request gives a different outcome: %+v then %+v", o1, o), "not-a-function-of-the-request", ""
		}
	}
	if want == "notfound" {
		return "", "", "notfound-chain"
	}
	return "", "", "route-chain"
}

func c07HasHdr(set []c07Route) bool {
	for _, r := range set {
		if len(r.Hdr) > 0 {
			return true
		}
	}
	return false
}

// c07Grid: the number of leading entries of c07Paths that come from the byte-string grid.
var c07Grid int

// c07Huge: the index of the first of the three 64 KiB paths at the end of c07Paths (strided like the grid).
var c07Huge int

func c07Paths(thorough bool) []string {
	alpha := []string{"/", "a", "%", "2", "F", "z", "\x00", "\xff", "{", "?", "."}
	n := 3
	if thorough {
		n = 4
	}
	tails := append([]string{""}, stringsOver(alpha, n)...)
	prefixes := []string{"", "/", "/a/", "/a/b/c/d/e/"}
	if thorough {
		prefixes = append(prefixes, "//", "/a//", "/z/")
	}
	var out []string
	for _, p := range prefixes {
		for _, t := range tails {
			out = append(out, p+t)
		}
	}
	c07Grid = len(out)                                                             // what follows is served for every method, whatever its stride
	out = append(out, "T/a", "ET/a", "a", "a/b", "T/", "ET/a/b", "/b", "T/a/", "") // paths that complete a method token such as GE, G, GET/
	out = append(out, "/A", "/A/b", "/a/B", "/A/", "/Z/a")                         // matching is case-sensitive
	out = append(out, "/a/a-a/z", "/a/2-za/z", "/a/a-z", "/z/z", "/a/z/z")
	out = append(out, `/a)(\Qb`, "/azb", "/ab", "/a)(b", `/az\Eb`, `/a\Qz\Eb`)                                                                                      // texts around the quoted expressions
	out = append(out, "/aza", "/azza", "/azaza", "/azzza", "/a/a", "/a/aa", "/a/aaa", "/z/aaa", "/z/aaaa", "/z/aaaaa", "/z/aaa/z", "/a.a/z", "/a..a/z", "/a.z.a/z") // overlapping literals
	out = append(out, "/a/b", "/a/b/z", "/z/a/b")                                                                                                                   // below a refused optional route
	out = append(out, "/a/%2F/%/z%20", "/a/%/%2F/%41", "/a/%zz/a%2Fz/%2F", "/z/%2F-%-%41", "/z/%-%2F-%2F", "/a%2F/%/z/%/%61", "/%/%2F/z/%2561/%zz")                 // a malformed escape next to well-formed ones
	c07Huge = len(out)
	out = append(out, "/"+strings.Repeat("a/", 32*1024), strings.Repeat("/", 70000), "/a/"+strings.Repeat("z", 65536))
	return out
}

func c07Run(r *core.Run) {
	r.SetBudget(100 * time.Second)
	if r.Thorough() {
		r.SetBudget(20 * time.Minute)
	}
	paths := c07Paths(r.Thorough())
	r.Rule = fmt.Sprintf("engine E: %d route sets (", len(c07Sets)) + "each segment kind alone and mixed, capture-limited match-alls, optional, header-constrained, multi-method, regex-active literals, empty) x NotFound {default, user chain} x application middleware {absent, present} x 6 method strings (incl. lower-case, unknown and empty; the six remaining known methods on every 8th path) x every byte string of length <=3 (thorough 4) over {/ a % 2 F z NUL 0xff { ? .} appended to 4-7 prefixes plus three 64 KiB paths x header sets; oracle: no panic, the application middleware starts exactly once, the chain that runs is the one the reference priority picks (or not-found), and the request served three times gives identical observations; non-trivial = request whose path contains a byte outside [a-z/] or whose method is unknown"
	r.Bounds["paths"] = len(paths)
	r.Bounds["route_sets"] = len(c07Sets)
	r.Bounds["methods"] = c07Methods
	if !r.Thorough() {
		r.Bounds["quick_reduction"] = "all 6 method strings only with user NotFound and middleware both present (other than GET and the empty one on every second path); GET alone with neither; GET and the empty method with exactly one of them, on every third path; the six remaining known methods on every 16th path; thorough runs every combination"
	}
	r.Assumptions = []string{"the path is given as req.URL.Path (arbitrary bytes)", "first value of a repeated header is the one matched (http.Header.Get)"}
	type job struct {
		si         int
		userNF, mw bool
		method     string
		stride     int
	}
	var jobs []job
	for si := range c07Sets {
		for _, nf := range []bool{false, true} {
			for _, mw := range []bool{false, true} {
				for _, m := range c07Methods {
					if !r.Thorough() && !mw && !nf && m != "GET" {
						continue
					}
					if !r.Thorough() && mw != nf && m != "GET" && m != "" {
						continue // quick: the mixed configurations with GET and the empty method only
					}
					stride := 1
					if !r.Thorough() && mw != nf {
						stride = 3 // quick: the mixed configurations on every third path
					}
					if !r.Thorough() && mw && nf && m != "GET" && m != "" {
						stride = 2 // quick: with both present, the other method strings on every second path
					}
					jobs = append(jobs, job{si, nf, mw, m, stride})
				}
			}
		}
		for _, m := range c07RareMethods {
			rare := 8
			if !r.Thorough() {
				rare = 16
			}
			jobs = append(jobs, job{si, false, false, m, rare}, job{si, true, true, m, rare})
		}
	}
	r.Parallel(func(w, nw int, l *core.Local) {
		m := ref.NewMatcher()
		for ji := w; ji < len(jobs); ji += nw {
			j := jobs[ji]
			// a set whose registration is refused (registration panics) is C08's business: counted, skipped
			if refused := func() (pv interface{}) {
				defer func() {
					pv = recover()
					if hb, ok := pv.(c07HarnessBug); ok {
						panic(hb) // a wrong expectation of the harness, not a refusal: fail loudly
					}
				}()
				c07Build(c07Sets[j.si], j.userNF, j.mw)
				return nil
			}(); refused != nil {
				l.Extra["route_sets_refused_at_registration(C08)"]++
				continue
			}
			world := c07Build(c07Sets[j.si], j.userNF, j.mw)
			twins := []*c07World{c07Build(c07Sets[j.si], j.userNF, j.mw), c07Build(c07Sets[j.si], j.userNF, j.mw), c07BuildL(c07Sets[j.si], j.userNF, j.mw, true)}
			l.States++
			hdrs := c07HdrSets[:1]
			if len(c07Sets[j.si]) > 0 && c07HasHdr(c07Sets[j.si]) {
				hdrs = c07HdrSets
			}
			for pi, p := range paths {
				if pi%256 == 0 && r.Expired() {
					return
				}
				if pi%j.stride != 0 && (pi < c07Grid || pi >= c07Huge) {
					continue
				}
				for _, hdr := range hdrs {
					l.Evals++
					l.Transitions++
					l.Traces++
					if strings.ContainsAny(p, "%\x00\xff{?.2F") || (j.method != "GET" && j.method != "POST" && j.method != "HEAD") {
						l.NonTrivial++
					}
					bad, kind, class := c07Judge(m, world, j.userNF, j.mw, j.method, p, hdr, twins...)
					if bad != "" {
						l.Class("mismatch")
						l.Violate(fmt.Sprintf("%s/set=%d", kind, j.si), bad+fmt.Sprintf(" [set %d, %s %q]", j.si, j.method, trunc(p)),
							c07Case{Set: c07Sets[j.si], UserNotFound: j.userNF, Middleware: j.mw, Method: j.method, PathHex: fmt.Sprintf("%x", p), PathLen: len(p), Headers: hdr})
						continue
					}
					l.Class(class)
					if (ji*7+pi)%40009 == 0 {
						l.Sample(map[string]interface{}{"set": j.si, "method": j.method, "path": fmt.Sprintf("%q", trunc(p)), "outcome": class})
					}
				}
			}
		}
	})
}

func c07Replay(raw json.RawMessage) (bool, string) {
	var c c07Case
	if err := json.Unmarshal(raw, &c); err != nil {
		return false, err.Error()
	}
	var path []byte
	if _, err := fmt.Sscanf(c.PathHex, "%x", &path); err != nil && c.PathHex != "" {
		return false, err.Error()
	}
	w := c07Build(c.Set, c.UserNotFound, c.Middleware)
	twins := []*c07World{c07Build(c.Set, c.UserNotFound, c.Middleware), c07Build(c.Set, c.UserNotFound, c.Middleware), c07BuildL(c.Set, c.UserNotFound, c.Middleware, true)}
	bad, _, _ := c07Judge(ref.NewMatcher(), w, c.UserNotFound, c.Middleware, c.Method, string(path), c.Headers, twins...)
	return bad != "", bad
}

func init() {
	core.Register(&core.Check{ID: "C07", Run: c07Run, Replay: c07Replay})
}
