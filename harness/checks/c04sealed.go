package checks

import (
	"fmt"
	"reflect"
	"strings"

	"github.com/flamego/flamego/inject"
	"github.com/flamego/flamego/verifharness/core"
)

// ---- C04, second universe: interfaces and implementors whose method sets are not visible through
// reflect's NumMethod / Method (unexported methods only), embedded interfaces, and an interface that
// another interface implements. "A type implementing the interface" is reflect.Type.Implements, nothing less.

type c04Sealed interface{ sealed() }
type c04Mixed interface {
	sealed()
	Open() string
}
type c04SVal struct{ Tag string }   // value receiver, unexported method only
type c04SPtr struct{ Tag string }   // pointer receiver, unexported method only
type c04SMixed struct{ Tag string } // implements c04Mixed (and so c04Sealed)
type c04SNamed func() string        // a func type with an unexported method
type c04SealedFast func(c04Sealed) string

func (c04SVal) sealed()        {}
func (*c04SPtr) sealed()       {}
func (c04SMixed) sealed()      {}
func (c04SMixed) Open() string { return "open" }
func (c04SNamed) sealed()      {}
func (f c04SealedFast) Invoke(a []interface{}) ([]reflect.Value, error) {
	return c04rv(f(a[0].(c04Sealed))), nil
}

// c04VarFast: a variadic handler type with a fast invoker of its own.
type c04VarFast func(c04SVal, ...int) string

func (f c04VarFast) Invoke(a []interface{}) ([]reflect.Value, error) {
	return c04rv(f(a[0].(c04SVal), a[1].([]int)...)), nil
}

// c04Variadic: a variadic handler's trailing parameter is a parameter like any other (type []T): when
// nothing is registered for it the invocation fails naming the type and the body does not run - plain
// and fast alike. (With a registered []T the plain path is outside what reflect.Call accepts: not asserted.)
func c04Variadic(first bool, fast bool) string {
	inj := inject.New()
	if first {
		inj.Map(c04SVal{"v"})
	}
	n := 0
	var f interface{} = func(a c04SVal, rest ...int) string { n++; return "ran" }
	if fast {
		f = c04VarFast(func(a c04SVal, rest ...int) string { n++; return "ran" })
	}
	var err error
	var pan interface{}
	func() {
		defer func() { pan = recover() }()
		_, err = inj.Invoke(f)
	}()
	if pan != nil {
		return fmt.Sprintf("Invoke panicked: %v", pan)
	}
	missing := "[]int"
	if !first {
		missing = "c04SVal"
	}
	if err == nil || n != 0 {
		return fmt.Sprintf("variadic handler func(SVal, ...int) with %s unresolvable: Invoke reported %v and the body ran %d times", missing, err, n)
	}
	if !strings.Contains(err.Error(), missing) {
		return fmt.Sprintf("error %q does not name the unresolvable type %s", err, missing)
	}
	return ""
}

// c04NameList is a named slice type: a []string value is assignable to it, yet it is another type.
type c04NameList []string
type c04NamesFast func(c04NameList) string
type c04RecvFast func(<-chan int) string

func (f c04NamesFast) Invoke(a []interface{}) ([]reflect.Value, error) {
	return c04rv(f(a[0].(c04NameList))), nil
}
func (f c04RecvFast) Invoke(a []interface{}) ([]reflect.Value, error) {
	return c04rv(f(a[0].(<-chan int))), nil
}

// c04Assignable: a parameter receives the value registered for EXACTLY its type. A value registered under a
// type that is merely assignable to it (a bidirectional channel for a directional one, an unnamed slice for a
// named one) does not count: the invocation fails naming the type, plain and fast alike; an exact
// registration in an outer scope is found.
func c04Assignable(which string, fast, outerExact bool) string {
	inner, outer := inject.New(), inject.New()
	inner.SetParent(outer)
	ch := make(chan int)
	inner.Map(ch)
	inner.Map([]string{"unnamed"})
	outerRecv := make(chan int)
	if outerExact {
		outer.Set(reflect.TypeOf((<-chan int)(nil)), reflect.ValueOf((<-chan int)(outerRecv)))
		outer.Map(c04NameList{"exact"})
	}
	n, got := 0, ""
	var f interface{}
	var missing string
	switch which {
	case "recv-chan":
		missing = "<-chan int"
		h := func(c <-chan int) string {
			n++
			if c == (<-chan int)(outerRecv) {
				got = "outer-exact"
			} else {
				got = "some other channel"
			}
			return "ran"
		}
		f = h
		if fast {
			f = c04RecvFast(h)
		}
	default:
		missing = "c04NameList"
		h := func(v c04NameList) string { n++; got = strings.Join(v, ","); return "ran" }
		f = h
		if fast {
			f = c04NamesFast(h)
		}
	}
	var err error
	var pan interface{}
	func() {
		defer func() { pan = recover() }()
		_, err = inner.Invoke(f)
	}()
	if pan != nil {
		return fmt.Sprintf("Invoke panicked: %v", pan)
	}
	if !outerExact {
		if err == nil || n != 0 {
			return fmt.Sprintf("parameter of type %s with only an assignable (not identical) type registered: Invoke reported %v and the body ran %d times with %q", missing, err, n, got)
		}
		if !strings.Contains(err.Error(), missing) {
			return fmt.Sprintf("error %q does not name the unresolvable type %s", err, missing)
		}
		return ""
	}
	want := "exact"
	if which == "recv-chan" {
		want = "outer-exact"
	}
	if err != nil || n != 1 || got != want {
		return fmt.Sprintf("parameter of type %s, registered exactly in the outer scope (an assignable type sits in the inner scope): Invoke reported %v, body ran %d times with %q, expected the outer scope's value", missing, err, n, got)
	}
	return ""
}

// c04Many: a scope that holds more than a handful of types; one of them is registered again (Map / MapTo /
// Set alike) and every type is resolved: the re-registered one gives the new value, all others their own.
func c04Many(k int, api string) string {
	type reg struct {
		typ reflect.Type
		mk  func(tag string) reflect.Value
		to  interface{} // MapTo target, nil for Map
	}
	regs := []reg{
		{c04TypT1, func(t string) reflect.Value { return reflect.ValueOf(c04T1{t}) }, nil},
		{c04TypPT1, func(t string) reflect.Value { return reflect.ValueOf(&c04T1{t}) }, nil},
		{c04TypT2, func(t string) reflect.Value { return reflect.ValueOf(c04T2{t}) }, nil},
		{c04TypNS, func(t string) reflect.Value { return reflect.ValueOf(c04NS(t)) }, nil},
		{c04TypI, func(t string) reflect.Value { return reflect.ValueOf(c04Both{t}) }, (*c04I)(nil)},
		{c04TypJ, func(t string) reflect.Value { return reflect.ValueOf(c04JImpl{t}) }, (*c04J)(nil)},
		{reflect.TypeOf(c04SVal{}), func(t string) reflect.Value { return reflect.ValueOf(c04SVal{t}) }, nil},
		{reflect.TypeOf(&c04SPtr{}), func(t string) reflect.Value { return reflect.ValueOf(&c04SPtr{t}) }, nil},
		{reflect.TypeOf(c04SMixed{}), func(t string) reflect.Value { return reflect.ValueOf(c04SMixed{t}) }, nil},
		{c04STypSealed, func(t string) reflect.Value { return reflect.ValueOf(c04SVal{t}) }, (*c04Sealed)(nil)},
		{reflect.TypeOf(""), func(t string) reflect.Value { return reflect.ValueOf(t) }, nil},
		{reflect.TypeOf(0), func(t string) reflect.Value { return reflect.ValueOf(len(t)) }, nil},
	}
	put := func(inj inject.Injector, r reg, tag string, how string) {
		v := r.mk(tag)
		switch {
		case how == "Set":
			inj.Set(r.typ, v)
		case r.to != nil:
			inj.MapTo(v.Interface(), r.to)
		default:
			inj.Map(v.Interface())
		}
	}
	inj := inject.New()
	for _, r := range regs {
		put(inj, r, "old", "Map")
	}
	put(inj, regs[k], "new-value", api)
	for i, r := range regs {
		want := fmt.Sprint(r.mk("old").Interface())
		if i == k {
			want = fmt.Sprint(r.mk("new-value").Interface())
		}
		got := inj.Value(r.typ)
		if !got.IsValid() {
			return fmt.Sprintf("after %d registrations and a second registration of %v: Value(%v) is not resolved", len(regs), regs[k].typ, r.typ)
		}
		g := got.Interface()
		if got.Kind() == reflect.Ptr && !got.IsNil() {
			g = got.Elem().Interface()
			w := r.mk("old")
			if i == k {
				w = r.mk("new-value")
			}
			want = fmt.Sprint(w.Elem().Interface())
		}
		if fmt.Sprint(g) != want {
			return fmt.Sprintf("after %d registrations and a second registration of %v through %s: Value(%v) = %v, expected %v", len(regs), regs[k].typ, api, r.typ, g, want)
		}
	}
	return ""
}

const c04ManyTypes = 12

type c04SealedTarget struct {
	F c04Sealed `inject:""`
	G c04Mixed  `inject:""`
}

var (
	c04STypSealed = reflect.TypeOf((*c04Sealed)(nil)).Elem()
	c04STypMixed  = reflect.TypeOf((*c04Mixed)(nil)).Elem()
	c04SNames     = []string{"Sealed(exact)", "Mixed(exact)", "SVal", "*SPtr", "SMixed", "SNamed"}
)

type c04SealedCase struct {
	Masks  []int  `json:"presence_mask_per_scope_inner_first"`
	What   string `json:"what"`
	Target string `json:"target"`
}

func c04SealedID(v reflect.Value) string {
	if !v.IsValid() {
		return "<invalid>"
	}
	for v.Kind() == reflect.Interface && !v.IsNil() {
		v = v.Elem()
	}
	switch x := v.Interface().(type) {
	case c04SVal:
		return "SVal:" + x.Tag
	case *c04SPtr:
		return "*SPtr:" + x.Tag
	case c04SMixed:
		return "SMixed:" + x.Tag
	case c04SNamed:
		return "SNamed:" + x()
	}
	return fmt.Sprintf("?%v", v.Type())
}

// c04SealedBuild: bit 0: a value registered under the key Sealed (MapTo), bit 1: under Mixed, bits 2..5:
// values mapped under their own concrete types.
func c04SealedBuild(masks []int) (inject.Injector, []c04Scope) {
	injs := make([]inject.Injector, len(masks))
	var scopes []c04Scope
	for s, m := range masks {
		injs[s] = inject.New()
		sc := c04Scope{}
		tag := fmt.Sprintf("s%d", s)
		if m&1 != 0 {
			v := c04SVal{tag + "-exact"}
			injs[s].MapTo(v, (*c04Sealed)(nil))
			sc[c04STypSealed] = reflect.ValueOf(v)
		}
		if m&2 != 0 {
			v := c04SMixed{tag + "-exact"}
			injs[s].MapTo(v, (*c04Mixed)(nil))
			sc[c04STypMixed] = reflect.ValueOf(v)
		}
		if m&4 != 0 {
			v := c04SVal{tag}
			injs[s].Map(v)
			sc[reflect.TypeOf(v)] = reflect.ValueOf(v)
		}
		if m&8 != 0 {
			v := &c04SPtr{tag}
			injs[s].Map(v)
			sc[reflect.TypeOf(v)] = reflect.ValueOf(v)
		}
		if m&16 != 0 {
			v := c04SMixed{tag}
			injs[s].Set(reflect.TypeOf(v), reflect.ValueOf(v))
			sc[reflect.TypeOf(v)] = reflect.ValueOf(v)
		}
		if m&32 != 0 {
			t := tag
			v := c04SNamed(func() string { return t })
			injs[s].Map(v)
			sc[reflect.TypeOf(v)] = reflect.ValueOf(v)
		}
		scopes = append(scopes, sc)
	}
	for s := 0; s+1 < len(injs); s++ {
		injs[s].SetParent(injs[s+1])
	}
	return injs[0], scopes
}

func c04SealedAllowed(allowed []reflect.Value, got reflect.Value) bool {
	if len(allowed) == 0 {
		return !got.IsValid()
	}
	if !got.IsValid() {
		return false
	}
	g := c04SealedID(got)
	for _, a := range allowed {
		if c04SealedID(a) == g {
			return true
		}
	}
	return false
}

func c04SealedIDs(vs []reflect.Value) string {
	if len(vs) == 0 {
		return "unresolved"
	}
	var s []string
	for _, v := range vs {
		s = append(s, c04SealedID(v))
	}
	return "{" + strings.Join(s, " | ") + "}"
}

// c04SealedCheck evaluates one (scopes, what, target); the reference is c04Resolve (exact in the nearest
// scope, else the set of same-scope implementors, else outer).
func c04SealedCheck(c c04SealedCase) string {
	inner, scopes := c04SealedBuild(c.Masks)
	typ := c04STypSealed
	if c.Target == "Mixed" {
		typ = c04STypMixed
	}
	allowed := c04Resolve(scopes, typ)
	switch c.What {
	case "value":
		got := inner.Value(typ)
		if !c04SealedAllowed(allowed, got) {
			return fmt.Sprintf("Value(%s) = %s, nearest-scope-first resolution allows %s", c.Target, c04SealedID(got), c04SealedIDs(allowed))
		}
	case "invoke", "invoke-fast":
		var seen reflect.Value
		n := 0
		var f interface{}
		switch {
		case c.What == "invoke-fast":
			f = c04SealedFast(func(v c04Sealed) string { n++; seen = reflect.ValueOf(v); return "result-marker" })
		case c.Target == "Mixed":
			f = func(v c04Mixed) string { n++; seen = reflect.ValueOf(v); return "result-marker" }
		default:
			f = func(v c04Sealed) string { n++; seen = reflect.ValueOf(v); return "result-marker" }
		}
		var vals []reflect.Value
		var err error
		var pan interface{}
		func() {
			defer func() { pan = recover() }()
			vals, err = inner.Invoke(f)
		}()
		if pan != nil {
			return fmt.Sprintf("Invoke panicked: %v", pan)
		}
		if len(allowed) == 0 {
			if err == nil || n != 0 {
				return fmt.Sprintf("parameter %s cannot be resolved but Invoke reported %v and the body ran %d times", c.Target, err, n)
			}
			if !strings.Contains(err.Error(), typ.String()) {
				return fmt.Sprintf("error %q does not name the unresolvable type %v", err, typ)
			}
			return ""
		}
		if err != nil || n != 1 {
			return fmt.Sprintf("parameter %s is resolvable (%s) but Invoke reported %v and the body ran %d times", c.Target, c04SealedIDs(allowed), err, n)
		}
		if !c04SealedAllowed(allowed, seen) {
			return fmt.Sprintf("argument = %s, resolution allows %s", c04SealedID(seen), c04SealedIDs(allowed))
		}
		if len(vals) != 1 || vals[0].String() != "result-marker" {
			return fmt.Sprintf("results not returned unchanged: %v", vals)
		}
	case "apply":
		t := &c04SealedTarget{}
		var err error
		var pan interface{}
		func() {
			defer func() { pan = recover() }()
			err = inner.Apply(t)
		}()
		if pan != nil {
			return fmt.Sprintf("Apply panicked: %v", pan)
		}
		aF, aG := c04Resolve(scopes, c04STypSealed), c04Resolve(scopes, c04STypMixed)
		if len(aF) == 0 || len(aG) == 0 {
			if err == nil {
				return "a tagged field cannot be resolved but Apply reported no error"
			}
			return ""
		}
		if err != nil {
			return fmt.Sprintf("all tagged fields resolvable but Apply failed: %v", err)
		}
		if !c04SealedAllowed(aF, reflect.ValueOf(&t.F).Elem()) || !c04SealedAllowed(aG, reflect.ValueOf(&t.G).Elem()) {
			return fmt.Sprintf("fields = %s / %s, resolution allows %s / %s", c04SealedID(reflect.ValueOf(&t.F).Elem()), c04SealedID(reflect.ValueOf(&t.G).Elem()), c04SealedIDs(aF), c04SealedIDs(aG))
		}
	}
	return ""
}

func c04SealedPhase(r *core.Run) {
	r.Bounds["sealed_universe"] = c04SNames
	{
		l := core.NewLocal()
		for _, first := range []bool{true, false} {
			for _, fast := range []bool{false, true} {
				l.Evals++
				l.Transitions++
				l.Traces++
				l.NonTrivial++
				if bad := c04Variadic(first, fast); bad != "" {
					l.Class("mismatch")
					l.Violate(fmt.Sprintf("variadic-handler/fast=%v", fast), bad, c04Case{What: "variadic", Fast: fast, Target: map[bool]int{true: 1, false: 0}[first]})
				} else {
					l.Class("variadic-handler:unresolved")
				}
			}
		}
		for _, which := range []string{"recv-chan", "named-slice"} {
			for _, fast := range []bool{false, true} {
				for _, outerExact := range []bool{false, true} {
					l.Evals++
					l.Transitions++
					l.Traces++
					l.NonTrivial++
					if bad := c04Assignable(which, fast, outerExact); bad != "" {
						l.Class("mismatch")
						l.Violate(fmt.Sprintf("assignable-is-not-exact/%s/fast=%v", which, fast), bad, c04Case{What: "assignable:" + which, Fast: fast, Target: map[bool]int{true: 1, false: 0}[outerExact]})
					} else {
						l.Class("assignable-type:not-a-registration")
					}
				}
			}
		}
		for k := 0; k < c04ManyTypes; k++ {
			for _, api := range []string{"Map", "Set"} {
				l.Evals++
				l.Transitions += c04ManyTypes + 1
				l.Traces++
				l.NonTrivial++
				l.States++
				if bad := c04Many(k, api); bad != "" {
					l.Class("mismatch")
					l.Violate("many-types/"+api, bad, c04Case{What: "many", Target: k, Fast: api == "Set"})
				} else {
					l.Class("many-types:re-registered")
				}
			}
		}
		r.Merge(l)
	}
	type job struct{ masks []int }
	var jobs []job
	for a := 0; a < 64; a++ {
		jobs = append(jobs, job{[]int{a}})
		for b := 0; b < 64; b++ {
			jobs = append(jobs, job{[]int{a, b}})
		}
	}
	r.Parallel(func(w, nw int, l *core.Local) {
		for ji := w; ji < len(jobs); ji += nw {
			l.States++
			for _, what := range []string{"value", "invoke", "invoke-fast", "apply"} {
				for _, target := range []string{"Sealed", "Mixed"} {
					if (what == "invoke-fast" || what == "apply") && target == "Mixed" {
						continue
					}
					c := c04SealedCase{Masks: jobs[ji].masks, What: what, Target: target}
					l.Evals++
					l.Transitions++
					l.Traces++
					l.NonTrivial++
					// implementor choice among several is map-order dependent: a few tries
					bad := ""
					for try := 0; try < 3 && bad == ""; try++ {
						bad = c04SealedCheck(c)
					}
					if bad != "" {
						l.Class("mismatch")
						l.Violate("sealed-interface/"+what+"/"+target, bad+fmt.Sprintf(" [scopes inner first %v over %v]", c.Masks, c04SNames), c04Case{What: "sealed", Sealed: &c})
					} else {
						l.Class("sealed-universe:" + what)
					}
				}
			}
		}
	})
}
