package checks

import (
	"encoding/json"
	"fmt"
	"io"
	"net/http"
	"strings"
	"time"

	"github.com/flamego/flamego"
	"github.com/flamego/flamego/verifharness/core"
)

// ---- C13: ResponseWriter state machine (engine B) ----

type rwSpy struct {
	hdr http.Header
	log []string
	// limit >= 0: the underlying writer takes that many body bytes in all and then fails, reporting the bytes
	// it did take together with the error (a connection that breaks in the middle of a write)
	limit, taken int
}

func (s *rwSpy) take(b string) (int, error) {
	if s.limit < 0 || s.taken+len(b) <= s.limit {
		s.taken += len(b)
		s.log = append(s.log, "B"+b)
		return len(b), nil
	}
	n := s.limit - s.taken
	s.taken = s.limit
	s.log = append(s.log, "B"+b[:n])
	return n, io.ErrClosedPipe
}

func (s *rwSpy) Header() http.Header         { return s.hdr }
func (s *rwSpy) WriteHeader(c int)           { s.log = append(s.log, fmt.Sprintf("H%d", c)) }
func (s *rwSpy) Write(b []byte) (int, error) { return s.take(string(b)) }

// WriteString makes the spy an io.StringWriter, as net/http's and httptest's writers are: a string written
// through io.WriteString may reach it by this door, and is a body write like any other.
func (s *rwSpy) WriteString(str string) (int, error) { return s.take(str) }

type rwSpyFlusher struct{ rwSpy }

func (s *rwSpyFlusher) Flush() { s.log = append(s.log, "F") }

var c13OpNames = []string{"WriteHeader(201)", "WriteHeader(404)", `Write("ab")`, `Write("")`, "Flush", "Before(h1)", "Before(h2:sets-header)", `io.WriteString("c")`, "Before(h3:registers-another-hook-when-it-runs)"}

// the boring model, written from the statement
type rwModel struct {
	head, flusher bool
	status, size  int
	hooks         []int
	sent          []string
	hookLog       []string
	hdrSet        bool
	limit, taken  int
}

func (m *rwModel) writeHeader(s int) {
	if m.status != 0 {
		return
	}
	for i := len(m.hooks) - 1; i >= 0; i-- {
		m.hookLog = append(m.hookLog, fmt.Sprintf("h%d:status=0:sent=%d", m.hooks[i], len(m.sent)))
		if m.hooks[i] == 2 {
			m.hdrSet = true
		}
	}
	m.sent = append(m.sent, fmt.Sprintf("H%d", s))
	m.status = s
}
func (m *rwModel) write(b string) int {
	if m.status == 0 {
		m.writeHeader(200)
	}
	if m.head {
		return 0
	}
	if m.limit >= 0 && m.taken+len(b) > m.limit {
		b = b[:m.limit-m.taken]
	}
	m.taken += len(b)
	m.sent = append(m.sent, "B"+b)
	m.size += len(b)
	return len(b)
}
func (m *rwModel) flush() {
	if m.status == 0 {
		m.writeHeader(200)
	}
	if m.flusher {
		m.sent = append(m.sent, "F")
	}
}

type c13Case struct {
	Method  string   `json:"method"`
	Flusher bool     `json:"underlying_is_flusher"`
	Ops     []string `json:"ops"`
	// Requests: the operations the handlers of successive requests to one application instance perform, each
	// on its own request's writer
	Requests [][]string `json:"operations_per_request_on_one_instance,omitempty"`
}

func c13SweepClass(st int) string {
	if st < 100 {
		return "outside-100-999"
	}
	return fmt.Sprintf("%dxx", st/100)
}

func c13OpIndex(name string) int {
	for i, n := range c13OpNames {
		if n == name {
			return i
		}
	}
	var st int
	if n, _ := fmt.Sscanf(name, "WriteHeader(%d)", &st); n == 1 {
		if st >= 100 && st <= 999 {
			return st // ops 100..999 are WriteHeader with that status (the status sweep)
		}
		for i, c := range c13Invalid {
			if c == st {
				return 50 + i
			}
		}
	}
	return -1
}

// c13Invalid: status codes net/http itself refuses. A writer may pass them on or ignore them; either way it
// stays the state machine of the statement (ops 50.. are WriteHeader with these codes).
var c13Invalid = []int{-1, 1, 99, 1000, 65536}

func c13OpName(op int) string {
	if op >= 100 {
		return fmt.Sprintf("WriteHeader(%d)", op)
	}
	if op >= 50 && op < 50+len(c13Invalid) {
		return fmt.Sprintf("WriteHeader(%d)", c13Invalid[op-50])
	}
	return c13OpNames[op]
}

// c13Exec replays ops on a fresh real writer and a fresh model, comparing after every step.
// Returns canonical key of the final state and a non-empty description on the first mismatch.
func c13Exec(method string, flusher bool, ops []int) (key string, bad string) {
	var spy *rwSpy
	var under http.ResponseWriter
	limit := -1
	if i := strings.Index(method, "/underlying-takes-"); i >= 0 {
		// e.g. "GET/underlying-takes-3-bytes": the environment answers the later writes with a short count
		// and an error
		fmt.Sscanf(method[i:], "/underlying-takes-%d-bytes", &limit)
		method = strings.Replace(method, fmt.Sprintf("/underlying-takes-%d-bytes", limit), "", 1)
	}
	if flusher {
		f := &rwSpyFlusher{rwSpy{hdr: http.Header{}, limit: limit}}
		spy, under = &f.rwSpy, f
	} else {
		spy = &rwSpy{hdr: http.Header{}, limit: limit}
		under = spy
	}
	if strings.HasSuffix(method, "/over-GET-writer") {
		// the writer under test wraps another flamego writer (created for a GET request) that wraps the
		// spy: what reaches the spy is what the statement says of the outer writer's own method
		method = strings.TrimSuffix(method, "/over-GET-writer")
		under = flamego.NewResponseWriter("GET", under)
	}
	w := flamego.NewResponseWriter(method, under)
	m := &rwModel{head: method == http.MethodHead, flusher: flusher, limit: limit}
	return c13Drive(w, spy, m, method, ops)
}

// c13Drive performs ops on w (a writer over spy, fresh as far as its user can tell) next to the model m and
// compares after every step.
func c13Drive(w flamego.ResponseWriter, spy *rwSpy, m *rwModel, method string, ops []int) (key string, bad string) {
	var hookLog []string
	var mkHook func(id int) flamego.BeforeFunc
	mkHook = func(id int) flamego.BeforeFunc {
		return func(rw flamego.ResponseWriter) {
			if id == 4 {
				return // registered while the hooks were already running: whether it still runs is left open
			}
			hookLog = append(hookLog, fmt.Sprintf("h%d:status=%d:sent=%d", id, rw.Status(), len(spy.log)))
			if id == 2 {
				rw.Header().Set("X-Hook", "2")
			}
			if id == 3 {
				rw.Before(mkHook(4)) // must not disturb the hooks registered before
			}
		}
	}
	for step, op := range ops {
		wantN, gotN := -1, -1
		switch {
		case op >= 100:
			w.WriteHeader(op)
			m.writeHeader(op)
		case op >= 50 && op < 50+len(c13Invalid):
			// passed on (then it is the status sent, hooks and all) or ignored altogether (then nothing has
			// happened): decided by what reached the underlying writer
			code, before := c13Invalid[op-50], len(spy.log)
			w.WriteHeader(code)
			if len(spy.log) == before+1 && spy.log[before] == fmt.Sprintf("H%d", code) {
				m.writeHeader(code)
			}
		}
		switch op {
		case 0:
			w.WriteHeader(201)
			m.writeHeader(201)
		case 1:
			w.WriteHeader(404)
			m.writeHeader(404)
		case 2:
			gotN, _ = w.Write([]byte("ab"))
			wantN = m.write("ab")
		case 3:
			gotN, _ = w.Write([]byte(""))
			wantN = m.write("")
		case 4:
			w.Flush()
			m.flush()
		case 5:
			w.Before(mkHook(1))
			m.hooks = append(m.hooks, 1)
		case 6:
			w.Before(mkHook(2))
			m.hooks = append(m.hooks, 2)
		case 7:
			gotN, _ = io.WriteString(w, "c") // a body write through io.WriteString
			wantN = m.write("c")
		case 8:
			w.Before(mkHook(3))
			m.hooks = append(m.hooks, 3)
		}
		at := fmt.Sprintf("after step %d (%s)", step+1, c13OpName(op))
		// a HEAD writer may report the bytes as accepted (as net/http does) or as 0: the statement only
		// fixes what is forwarded and what Size() reports
		if gotN != wantN && !(method == http.MethodHead && wantN == 0) {
			return "", fmt.Sprintf("%s: Write returned %d, model %d", at, gotN, wantN)
		}
		if w.Status() != m.status {
			return "", fmt.Sprintf("%s: Status()=%d, model %d", at, w.Status(), m.status)
		}
		if w.Written() != (m.status != 0) {
			return "", fmt.Sprintf("%s: Written()=%v, model %v", at, w.Written(), m.status != 0)
		}
		if w.Size() != m.size {
			return "", fmt.Sprintf("%s: Size()=%d, model %d", at, w.Size(), m.size)
		}
		if strings.Join(spy.log, "|") != strings.Join(m.sent, "|") {
			return "", fmt.Sprintf("%s: underlying writer received %v, model %v", at, spy.log, m.sent)
		}
		if strings.Join(hookLog, "|") != strings.Join(m.hookLog, "|") {
			return "", fmt.Sprintf("%s: hooks observed %v, model %v", at, hookLog, m.hookLog)
		}
		if (spy.hdr.Get("X-Hook") == "2") != m.hdrSet {
			return "", fmt.Sprintf("%s: header set by hook present=%v, model %v", at, spy.hdr.Get("X-Hook") == "2", m.hdrSet)
		}
		// invariants straight from the statement, independent of the model
		nH, bodyBytes := 0, 0
		for i, e := range spy.log {
			if e[0] == 'H' {
				nH++
				if nH > 1 {
					return "", fmt.Sprintf("%s: underlying writer received a second status line: %v", at, spy.log)
				}
				for _, p := range spy.log[:i] {
					if p[0] == 'B' || p[0] == 'F' {
						return "", fmt.Sprintf("%s: body/flush reached the underlying writer before the status line: %v", at, spy.log)
					}
				}
			}
			if e[0] == 'B' {
				bodyBytes += len(e) - 1
				if nH == 0 {
					return "", fmt.Sprintf("%s: body byte before any status line: %v", at, spy.log)
				}
				if method == http.MethodHead {
					return "", fmt.Sprintf("%s: HEAD request forwarded body bytes: %v", at, spy.log)
				}
			}
		}
		if w.Size() != bodyBytes {
			return "", fmt.Sprintf("%s: Size()=%d but %d body bytes were forwarded", at, w.Size(), bodyBytes)
		}
	}
	key = fmt.Sprintf("%d/%d/%v/%s/%s", m.status, m.size, m.hooks, strings.Join(m.sent, ","), strings.Join(m.hookLog, ","))
	return key, ""
}

// c13StrictSpy refuses status codes outside 100..999 with a panic, as net/http's writer does.
type c13StrictSpy struct{ rwSpy }

func (s *c13StrictSpy) WriteHeader(c int) {
	if c < 100 || c > 999 {
		panic(fmt.Sprintf("invalid WriteHeader code %v", c))
	}
	s.rwSpy.WriteHeader(c)
}
func (s *c13StrictSpy) Flush() { s.log = append(s.log, "F") }

var c13FailOps = []string{"WriteHeader(201)", "WriteHeader(1000: refused by the underlying writer with a panic)", "WriteHeader(500)", `Write("ab")`, "Before(h:panics)", "Before(h1)", "Flush"}

// c13Failing: sequences in which committing the status can fail with a panic (a before-function that panics, a
// status code the underlying writer refuses); the driver recovers every panic and goes on, as Recovery and
// handlers do. No model: what the statement says in every state, whatever failed before - at most one status
// line at the underlying writer and no body byte or flush before it, Status() is 0 until then and that status
// afterwards, Written() says the same, Size() is what was forwarded, HEAD forwards nothing, no function
// registered with Before runs twice.
func c13Failing(method string, ops []int) (bad string) {
	spy := &c13StrictSpy{rwSpy{hdr: http.Header{}, limit: -1}}
	w := flamego.NewResponseWriter(method, spy)
	ran := map[int]int{}
	nHooks := 0
	for step, op := range ops {
		func() {
			defer func() { _ = recover() }()
			switch op {
			case 0:
				w.WriteHeader(201)
			case 1:
				w.WriteHeader(1000)
			case 2:
				w.WriteHeader(500)
			case 3:
				_, _ = w.Write([]byte("ab"))
			case 4, 5:
				id := nHooks
				nHooks++
				panics := op == 4
				w.Before(func(flamego.ResponseWriter) {
					ran[id]++
					if panics {
						panic("before-function panics")
					}
				})
			case 6:
				w.Flush()
			}
		}()
		at := fmt.Sprintf("after step %d (%s)", step+1, c13FailOps[op])
		status, nH, body := 0, 0, 0
		for i, e := range spy.log {
			switch e[0] {
			case 'H':
				nH++
				fmt.Sscanf(e, "H%d", &status)
				if nH > 1 {
					return fmt.Sprintf("%s: the underlying writer received a second status line: %v", at, spy.log)
				}
				if i > 0 {
					return fmt.Sprintf("%s: body or flush reached the underlying writer before the status line: %v", at, spy.log)
				}
			case 'B':
				body += len(e) - 1
				if method == http.MethodHead {
					return fmt.Sprintf("%s: HEAD request forwarded body bytes: %v", at, spy.log)
				}
			}
		}
		if nH == 0 && len(spy.log) > 0 {
			return fmt.Sprintf("%s: body or flush reached the underlying writer although no status line was ever sent (Status()=%d): %v", at, w.Status(), spy.log)
		}
		if w.Status() != status || w.Written() != (nH == 1) {
			return fmt.Sprintf("%s: Status()=%d Written()=%v, the underlying writer has received %v", at, w.Status(), w.Written(), spy.log)
		}
		if w.Size() != body {
			return fmt.Sprintf("%s: Size()=%d, %d body bytes were forwarded", at, w.Size(), body)
		}
		for id, n := range ran {
			if n > 1 {
				return fmt.Sprintf("%s: the %d. function registered with Before ran %d times", at, id+1, n)
			}
		}
	}
	return ""
}

// c13CountSpy counts the body bytes it is handed and keeps none of them.
type c13CountSpy struct {
	hdr   http.Header
	bytes int64
}

func (s *c13CountSpy) Header() http.Header         { return s.hdr }
func (s *c13CountSpy) WriteHeader(int)             {}
func (s *c13CountSpy) Write(b []byte) (int, error) { s.bytes += int64(len(b)); return len(b), nil }

// c13Large: one response whose body passes 2 GiB and 4 GiB (17 writes of one shared 256 MiB block that nobody
// reads or copies): after every write Size() is the number of bytes forwarded.
func c13Large() (bad string, writes int) {
	block := make([]byte, 1<<28)
	spy := &c13CountSpy{hdr: http.Header{}}
	w := flamego.NewResponseWriter("GET", spy)
	for i := 1; i <= 17; i++ {
		n, err := w.Write(block)
		if err != nil || n != len(block) {
			return fmt.Sprintf("write %d of 256 MiB returned (%d, %v)", i, n, err), i
		}
		if int64(w.Size()) != spy.bytes {
			return fmt.Sprintf("after %d writes of 256 MiB Size() = %d although %d bytes were forwarded", i, w.Size(), spy.bytes), i
		}
	}
	return "", 17
}

// c13FlameSeq: the writer the handlers of a request see is a writer of that request alone. One application
// instance serves reqs in order (alternating between two routes); the handler of request i performs reqs[i]
// on c.ResponseWriter() next to a fresh model: status, size, pending hooks and hook observations start from
// nothing whatever earlier requests did with their writers (hooks registered and never triggered included).
func c13FlameSeq(method string, reqs [][]int) (bad string, at int) {
	f := flamego.NewWithLogger(io.Discard)
	var cur []int
	var spy *rwSpy
	var m *rwModel
	var res string
	h := func(c flamego.Context) {
		_, res = c13Drive(c.ResponseWriter(), spy, m, method, cur)
	}
	f.Routes("/a", method, h)
	f.Routes("/b/{x}", method, h)
	for i, ops := range reqs {
		cur, res = ops, ""
		spy = &rwSpy{hdr: http.Header{}, limit: -1}
		m = &rwModel{head: method == http.MethodHead, limit: -1}
		path := "/a"
		if i%2 == 1 {
			path = "/b/v"
		}
		var pan interface{}
		func() {
			defer func() { pan = recover() }()
			f.ServeHTTP(spy, newReq(method, path))
		}()
		if pan != nil {
			return fmt.Sprintf("request %d: ServeHTTP panicked: %v", i+1, pan), i
		}
		if res != "" {
			return fmt.Sprintf("request %d of the instance: %s", i+1, res), i
		}
		if strings.Join(spy.log, "|") != strings.Join(m.sent, "|") {
			return fmt.Sprintf("request %d: after the chain ended the underlying writer had received %v, model %v", i+1, spy.log, m.sent), i
		}
	}
	return "", -1
}

// c13FlameSeqs enumerates the request sequences: pairs of op sequences up to pairLen, triples up to tripleLen.
func c13FlameSeqs(r *core.Run) {
	pairLen, tripleLen := 2, 1
	if r.Thorough() {
		pairLen, tripleLen = 3, 2
	}
	r.Bounds["request_sequences_on_one_instance"] = fmt.Sprintf("GET and HEAD; every pair of requests whose handlers perform <=%d operations each and every triple with <=%d each on the request's own writer", pairLen, tripleLen)
	seqs := func(maxLen int) [][]int {
		out := [][]int{{}}
		for from, l := 0, 0; l < maxLen; l++ {
			to := len(out)
			for _, pre := range out[from:to] {
				for op := range c13OpNames {
					out = append(out, append(append([]int{}, pre...), op))
				}
			}
			from = to
		}
		return out
	}
	type job struct{ reqs [][]int }
	var jobs [][][]int
	for _, a := range seqs(pairLen) {
		for _, b := range seqs(pairLen) {
			jobs = append(jobs, [][]int{a, b})
		}
	}
	t := seqs(tripleLen)
	for _, a := range t {
		for _, b := range t {
			for _, c := range t {
				jobs = append(jobs, [][]int{a, b, c})
			}
		}
	}
	r.Parallel(func(wk, nw int, l *core.Local) {
		for ji := wk; ji < len(jobs); ji += nw {
			if (ji/nw)%512 == 0 && r.Expired() {
				return
			}
			for _, method := range []string{"GET", "HEAD"} {
				l.Evals++
				l.Traces++
				l.States++
				l.Transitions += int64(len(jobs[ji]))
				l.NonTrivial++
				l.Extra["request_sequences_on_one_instance"]++
				if bad, at := c13FlameSeq(method, jobs[ji]); bad != "" {
					var names [][]string
					for _, q := range jobs[ji][:at+1] {
						names = append(names, c13Names(q))
					}
					l.Class("mismatch")
					l.Violate("request-writer-not-fresh/"+method, bad, c13Case{Method: method, Requests: names})
				} else {
					l.Class("request-sequence")
				}
			}
		}
	})
	if r.Expired() {
		r.NotExhaustive("internal deadline (request sequences)")
	}
}

func c13Names(ops []int) []string {
	out := make([]string, len(ops))
	for i, o := range ops {
		out[i] = c13OpName(o)
	}
	return out
}

func c13Run(r *core.Run) {
	depth, treeDepth := 7, 0
	r.SetBudget(60 * time.Second)
	if r.Thorough() {
		depth, treeDepth = 9, 7
		r.SetBudget(9 * time.Minute)
	}
	r.Rule = "engine B: BFS over histories of {WriteHeader(201),WriteHeader(404),Write(ab),Write(''),Flush,Before(h1),Before(h2),io.WriteString(c),Before(h3 that registers a further hook when it runs)} replayed on a fresh flamego.NewResponseWriter over a spy; state key = (status,size,pending hooks,what the spy received,hook observations); model+invariants compared after every transition; plus sequences of requests on one application instance (each handler drives its own request's writer next to a fresh model); plus a status sweep (every status 100..999 in place of 201 in all short sequences, compared step by step); non-trivial = transition taken when a status had already been sent or a hook was pending (the cases where 'once' logic matters)"
	r.Bounds["bfs_depth"] = depth
	r.Bounds["undeduplicated_tree_depth"] = treeDepth
	r.Bounds["methods"] = []string{"GET", "HEAD", "POST"}
	r.Bounds["underlying"] = []string{"plain", "flusher"}
	r.Assumptions = []string{"hooks do not write to the writer from inside a Before function (outside the statement)", "single-threaded use of one writer (concurrency is C05)"}
	total := core.NewLocal()
	completed := map[string]int{}
	for _, method := range []string{"GET", "HEAD", "POST"} {
		for _, fl := range []bool{false, true} {
			method, fl := method, fl
			step := func(hist []int, l *core.Local) (string, bool) {
				l.Evals++
				key, bad := c13Exec(method, fl, hist)
				if bad != "" {
					l.Violate("rw-model-mismatch/"+method+"/"+c13OpNames[hist[len(hist)-1]], bad,
						c13Case{Method: method, Flusher: fl, Ops: c13Names(hist)})
					l.Class("mismatch")
					return "", false
				}
				// classify the last transition
				last := hist[len(hist)-1]
				written := strings.Contains(key, "H")
				_ = written
				prevKey, _ := c13Exec(method, fl, hist[:len(hist)-1])
				prevWritten := !strings.HasPrefix(prevKey, "0/")
				cls := c13OpNames[last]
				if prevWritten {
					cls += " after-status"
					l.NonTrivial++
				} else {
					cls += " before-status"
					if strings.Contains(prevKey, "/[1") || strings.Contains(prevKey, "/[2") {
						l.NonTrivial++
					}
				}
				l.Class(cls)
				if len(hist) == 4 {
					l.Sample(c13Case{Method: method, Flusher: fl, Ops: c13Names(hist)})
				}
				return key, true
			}
			b := &core.BFS{NumOps: len(c13OpNames), MaxDepth: depth, Step: step, Run: r, Dedup: true}
			s, t, d := b.Search()
			total.States += s
			total.Transitions += t
			completed[fmt.Sprintf("%s/flusher=%v", method, fl)] = d
			if d < depth {
				r.NotExhaustive("internal deadline")
			}
			if treeDepth > 0 {
				b2 := &core.BFS{NumOps: len(c13OpNames), MaxDepth: treeDepth, Step: step, Run: r, Dedup: false}
				s2, t2, d2 := b2.Search()
				total.Extra["tree_sequences_undeduplicated"] += s2
				total.Extra["tree_transitions_undeduplicated"] += t2
				if d2 < treeDepth {
					r.NotExhaustive("internal deadline (tree walk)")
				}
			}
		}
	}
	// the same machine wrapped around another flamego writer (shallower: the inner writer adds nothing new)
	nestedDepth := 5
	if r.Thorough() {
		nestedDepth = 7
	}
	r.Bounds["nested_writers"] = fmt.Sprintf("HEAD and GET writers over a GET flamego writer over the spy, depth %d", nestedDepth)
	r.Bounds["failing_underlying_writer"] = "GET and HEAD writers over a spy that takes 1 or 3 body bytes in all and then answers with a short count and an error, same depth as the nested writers"
	for _, method := range []string{"HEAD/over-GET-writer", "GET/over-GET-writer", "GET/underlying-takes-3-bytes", "GET/underlying-takes-1-bytes", "HEAD/underlying-takes-1-bytes", "GET/underlying-takes-3-bytes/over-GET-writer"} {
		for _, fl := range []bool{false, true} {
			method, fl := method, fl
			step := func(hist []int, l *core.Local) (string, bool) {
				l.Evals++
				l.NonTrivial++
				key, bad := c13Exec(method, fl, hist)
				if bad != "" {
					l.Violate("rw-model-mismatch/"+method+"/"+c13OpName(hist[len(hist)-1]), bad, c13Case{Method: method, Flusher: fl, Ops: c13Names(hist)})
					l.Class("mismatch")
					return "", false
				}
				l.Class("nested:" + c13OpName(hist[len(hist)-1]))
				return key, true
			}
			b := &core.BFS{NumOps: len(c13OpNames), MaxDepth: nestedDepth, Step: step, Run: r, Dedup: true}
			s, t, d := b.Search()
			total.States += s
			total.Transitions += t
			if d < nestedDepth {
				r.NotExhaustive("internal deadline (nested writers)")
			}
		}
	}
	r.Notes["bfs_depth_completed"] = completed
	r.Merge(total)
	c13FlameSeqs(r)
	{
		depth := 5
		if r.Thorough() {
			depth = 7
		}
		r.Bounds["failing_commits"] = fmt.Sprintf("GET and HEAD; every sequence of <=%d operations over %v, panics recovered by the driver; invariants of the statement after every step", depth, c13FailOps)
		var seqs [][]int
		var rec func(pre []int)
		rec = func(pre []int) {
			if len(pre) > 0 {
				seqs = append(seqs, append([]int{}, pre...))
			}
			if len(pre) == depth {
				return
			}
			for op := range c13FailOps {
				rec(append(pre, op))
			}
		}
		rec(nil)
		r.Parallel(func(wk, nw int, l *core.Local) {
			for si := wk; si < len(seqs); si += nw {
				if (si/nw)%1024 == 0 && r.Expired() {
					return
				}
				for _, method := range []string{"GET", "HEAD"} {
					l.Evals++
					l.Traces++
					l.States++
					l.Transitions += int64(len(seqs[si]))
					l.NonTrivial++
					if bad := c13Failing(method, seqs[si]); bad != "" {
						var names []string
						for _, op := range seqs[si] {
							names = append(names, c13FailOps[op])
						}
						l.Class("mismatch")
						l.Violate("failed-commit/"+method, bad, c13Case{Method: method + "/failing-commits", Ops: names})
					} else {
						l.Class("failing-commits")
					}
				}
			}
		})
		if r.Expired() {
			r.NotExhaustive("internal deadline (failing commits)")
		}
	}
	{
		l := core.NewLocal()
		bad, n := c13Large()
		l.Evals += int64(n)
		l.Transitions += int64(n)
		l.Traces++
		l.States++
		l.NonTrivial++
		if bad != "" {
			l.Class("mismatch")
			l.Violate("size-of-a-large-body", bad, c13Case{Method: "GET/17-writes-of-256-MiB"})
		} else {
			l.Class("large-body")
		}
		r.Bounds["large_body"] = "one GET response of 17 x 256 MiB (past 2 GiB and 4 GiB), Size() compared after every write"
		r.Merge(l)
	}
	// status sweep: every status 100..999 in place of 201 in every sequence of up to sweepDepth operations
	sweepDepth := 3
	if r.Thorough() {
		sweepDepth = 4
	}
	r.Bounds["status_sweep"] = fmt.Sprintf("every status 100..999, and five codes outside that range, substituted for 201 in every sequence of <=%d operations that contains it", sweepDepth)
	r.Parallel(func(wk, nw int, l *core.Local) {
		for sti := wk; sti < 900+len(c13Invalid); sti += nw {
			if r.Expired() {
				return
			}
			st := 100 + sti
			if sti >= 900 {
				st = 50 + (sti - 900) // the codes net/http refuses
			}
			for _, method := range []string{"GET", "HEAD"} {
				for _, fl := range []bool{false, true} {
					var rec func(hist []int, has bool)
					rec = func(hist []int, has bool) {
						if len(hist) > 0 && has {
							l.Evals++
							l.Traces++
							l.Transitions++
							l.NonTrivial++
							l.Extra["status_sweep_sequences"]++
							if _, bad := c13Exec(method, fl, hist); bad != "" {
								l.Class("mismatch")
								l.Violate(fmt.Sprintf("rw-model-mismatch/%s/status-sweep/%s", method, c13SweepClass(st)), bad,
									c13Case{Method: method, Flusher: fl, Ops: c13Names(hist)})
								return
							}
							l.Class("sweep:" + c13SweepClass(st))
						}
						if len(hist) == sweepDepth {
							return
						}
						for op := 0; op < len(c13OpNames); op++ {
							o := op
							if op == 0 {
								o = st
							}
							rec(append(hist[:len(hist):len(hist)], o), has || op == 0)
						}
					}
					rec(nil, false)
				}
			}
		}
	})
}

func c13Replay(raw json.RawMessage) (bool, string) {
	var c c13Case
	if err := json.Unmarshal(raw, &c); err != nil {
		return false, err.Error()
	}
	if strings.HasSuffix(c.Method, "/failing-commits") {
		var ops []int
		for _, n := range c.Ops {
			found := false
			for i, name := range c13FailOps {
				if name == n {
					ops, found = append(ops, i), true
				}
			}
			if !found {
				return false, "unknown op " + n
			}
		}
		bad := c13Failing(strings.TrimSuffix(c.Method, "/failing-commits"), ops)
		return bad != "", bad
	}
	if c.Method == "GET/17-writes-of-256-MiB" {
		bad, _ := c13Large()
		return bad != "", bad
	}
	if len(c.Requests) > 0 {
		var reqs [][]int
		for _, names := range c.Requests {
			q := make([]int, len(names))
			for i, n := range names {
				if q[i] = c13OpIndex(n); q[i] < 0 {
					return false, "unknown op " + n
				}
			}
			reqs = append(reqs, q)
		}
		bad, _ := c13FlameSeq(c.Method, reqs)
		return bad != "", bad
	}
	ops := make([]int, len(c.Ops))
	for i, n := range c.Ops {
		ops[i] = c13OpIndex(n)
		if ops[i] < 0 {
			return false, "unknown op " + n
		}
	}
	_, bad := c13Exec(c.Method, c.Flusher, ops)
	return bad != "", bad
}

func init() {
	core.Register(&core.Check{ID: "C13", Run: c13Run, Replay: c13Replay})
}
