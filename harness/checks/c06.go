package checks

import (
	"encoding/json"
	"fmt"
	"strings"
	"time"

	"github.com/flamego/flamego/internal/route"
	"github.com/flamego/flamego/verifharness/core"
	"github.com/flamego/flamego/verifharness/ref"
)

// ---- C06: route parser: total, exactly the grammar, canonical fix-point (engine E) ----

// c06Normalise collapses the blanks after ':' and ',' (outside a regex value) to one blank.
func c06Normalise(s string) string {
	var b strings.Builder
	inBind, inRegex := false, false
	i := 0
	for i < len(s) {
		c := s[i]
		switch {
		case inRegex:
			b.WriteByte(c)
			if c == '/' {
				inRegex = false
			}
			i++
		case !inBind:
			b.WriteByte(c)
			if c == '{' {
				inBind = true
			}
			i++
		default: // inside {...}
			b.WriteByte(c)
			i++
			switch c {
			case '}':
				inBind = false
			case ':', ',':
				j := i
				for j < len(s) && s[j] == ' ' {
					j++
				}
				b.WriteByte(' ')
				i = j
				if c == ':' && i < len(s) && s[i] == '/' {
					b.WriteByte('/')
					i++
					inRegex = true
				}
			}
		}
	}
	return b.String()
}

type c06Case struct {
	Input string `json:"input"`
	Hex   string `json:"input_hex"`
}

// c06Judge runs one string through the real parser and the reference; a panic anywhere in the code under
// test (parsing or rendering) is a finding, not a crash of the check.
func c06Judge(p *route.Parser, s string) (bad, kind, class string) {
	defer func() {
		if pv := recover(); pv != nil {
			bad, kind, class = fmt.Sprintf("rendering the parsed route panicked: %v", pv), "panic/rendering", ""
		}
	}()
	return c06JudgeInner(p, s)
}

func c06JudgeInner(p *route.Parser, s string) (bad, kind, class string) {
	var ast *route.Route
	var err error
	var pan interface{}
	func() {
		defer func() { pan = recover() }()
		ast, err = p.Parse(s)
	}()
	if pan != nil {
		return fmt.Sprintf("Parse panicked: %v", pan), "panic", ""
	}
	if ast == nil && err == nil {
		return "Parse returned neither a route nor an error", "neither-route-nor-error", ""
	}
	// parsing is a function of the string: the same string again, on the same parser, right away
	{
		var ast2 *route.Route
		var err2 error
		func() {
			defer func() { pan = recover() }()
			ast2, err2 = p.Parse(s)
		}()
		if pan != nil {
			return fmt.Sprintf("Parse panicked on the second call with the same string: %v", pan), "panic", ""
		}
		if (err == nil) != (err2 == nil) || (err == nil && !refEqual(astToRef(ast), astToRef(ast2))) {
			return fmt.Sprintf("parsing the same string twice in a row gives different results (first error: %v, second error: %v)", err, err2), "depends-on-earlier-calls", ""
		}
	}
	// (participle hands back the partial AST next to an error; by Go convention the error is the
	// result then, and that is how the router treats it)
	want, accept, determined := ref.Parse(s)
	if !determined {
		// documentation inconsistency: no accept/reject verdict; totality and fix-point still hold
		if err != nil {
			return "", "", "undetermined(rejected)"
		}
		class = "undetermined(accepted)"
	} else {
		if accept && err != nil {
			return fmt.Sprintf("rejects a string of the documented grammar: %v", err), "rejects-grammatical", ""
		}
		if !accept && err == nil {
			return fmt.Sprintf("accepts a string outside the documented grammar; parsed as %q", ast.String()), "accepts-ungrammatical", ""
		}
		if !accept {
			return "", "", "rejected"
		}
		class = "accepted"
		got := astToRef(ast)
		if !refEqual(got, want) {
			return fmt.Sprintf("parsed structure %q differs from the derivation %q", got.Text(), want.Text()), "ast-differs", ""
		}
		canon := c06Normalise(s)
		if canon != want.Text() {
			return fmt.Sprintf("harness self-check: normalised input %q vs reference canonical %q", canon, want.Text()), "harness-self-check", ""
		}
		if ast.String() != canon {
			return fmt.Sprintf("canonical rendering %q is not the input with spacing normalised (%q)", ast.String(), canon), "canonical-differs", ""
		}
	}
	// the segments render the route piecewise (the tree compares and reports them one by one)
	{
		whole := ast.String()
		var parts strings.Builder
		for _, seg := range ast.Segments {
			parts.WriteString(seg.String())
		}
		if parts.String() != whole {
			return fmt.Sprintf("the renderings of the segments, joined, give %q; the route renders as %q", parts.String(), whole), "segments-do-not-add-up", ""
		}
	}
	// ... in whatever order route and segments are asked (a fresh parse per order: segment i first, then the
	// route, then every segment)
	if n := len(ast.Segments); n >= 2 && (r06Thorough || len(s)%2 == 0) {
		whole := ast.String()
		for _, first := range []int{0, n - 1} {
			fresh, ferr := p.Parse(s)
			if ferr != nil || len(fresh.Segments) != n {
				break
			}
			one := fresh.Segments[first].String()
			if w2 := fresh.String(); w2 != whole {
				return fmt.Sprintf("rendered after its segment %d was rendered on its own (%q), the route gives %q instead of %q", first, one, w2, whole), "rendering-depends-on-order", ""
			}
			var parts strings.Builder
			for _, seg := range fresh.Segments {
				parts.WriteString(seg.String())
			}
			if parts.String() != whole {
				return fmt.Sprintf("segment %d rendered first, then the route, then every segment: joined they give %q; the route renders as %q", first, parts.String(), whole), "rendering-depends-on-order", ""
			}
		}
	}
	// fix-point (also on undetermined-but-accepted strings)
	str := ast.String()
	var ast2 *route.Route
	func() {
		defer func() { pan = recover() }()
		ast2, err = p.Parse(str)
	}()
	if pan != nil {
		return fmt.Sprintf("re-parsing the canonical form panicked: %v", pan), "panic", ""
	}
	if err != nil {
		return fmt.Sprintf("canonical form %q does not parse: %v", str, err), "canonical-unparseable", ""
	}
	if !refEqual(astToRef(ast), astToRef(ast2)) {
		return fmt.Sprintf("canonical form %q parses to a different structure", str), "canonical-not-same-structure", ""
	}
	if ast2.String() != str {
		return fmt.Sprintf("rendering is not idempotent: %q then %q", str, ast2.String()), "not-idempotent", ""
	}
	return "", "", class
}

func c06Report(l *core.Local, p *route.Parser, s string, sampleEvery int, n int) {
	l.Evals++
	l.Transitions++
	l.Traces++
	bad, kind, class := c06Judge(p, s)
	if bad != "" {
		l.Class("mismatch")
		l.Violate(kind, bad+fmt.Sprintf(" [input %q]", s), c06Case{Input: s, Hex: fmt.Sprintf("%x", s)})
		return
	}
	l.Class(class)
	if class == "accepted" || strings.HasPrefix(class, "undetermined") {
		l.NonTrivial++
		if n%sampleEvery == 0 {
			l.Sample(s)
		}
	}
}

// (c) derivations of the grammar
func c06Derivations(thorough bool) (full, reduced []string) {
	values := []string{"v", "**", "/x|y/", "/[ab]{1, 2}/"}
	blanks := []string{"", " ", "  "}
	var p1 []string
	for _, v := range values {
		for _, b := range blanks {
			p1 = append(p1, "n:"+b+v)
		}
	}
	var lists []string
	for _, a := range p1 {
		lists = append(lists, "{"+a+"}")
	}
	for _, a := range p1 {
		for _, cb := range blanks {
			for _, b2 := range p1 {
				lists = append(lists, "{"+a+","+cb+strings.Replace(b2, "n:", "m:", 1)+"}")
			}
		}
	}
	elemsFull := append([]string{"a", "b.c", "{x}", "{**}"}, lists...)
	elemsRed := []string{"a", "{x}", "{n: v}", "{n: **}", "{n: /x|y/}", "{n:/[ab]{1, 2}/,  m: **}"}
	var segFull, segRed []string
	for _, o := range []string{"/", "/?"} {
		segFull = append(segFull, o)
		segRed = append(segRed, o)
		for _, e := range elemsFull {
			segFull = append(segFull, o+e)
		}
		for _, e := range elemsRed {
			segRed = append(segRed, o+e)
			for _, e2 := range elemsRed {
				if !strings.HasPrefix(e, "{") && !strings.HasPrefix(e2, "{") {
					continue // two adjacent identifiers are one identifier
				}
				segRed = append(segRed, o+e+e2)
			}
		}
	}
	full = append(full, segFull...)
	full = append(full, segRed...)
	for _, a := range segRed {
		for _, b := range segFull {
			full = append(full, a+b)
		}
		for _, b := range segRed {
			full = append(full, a+b)
		}
	}
	reduced = append(reduced, full...)
	if thorough {
		for _, a := range segRed {
			for _, b := range segRed {
				for _, c := range segRed {
					full = append(full, a+b+c)
				}
			}
		}
	} else {
		for i, a := range segRed {
			for j, b := range segRed {
				for k, c := range segRed {
					if (i+j+k)%9 == 0 {
						full = append(full, a+b+c)
					}
				}
			}
		}
	}
	return
}

var c06Tokens = []string{"/", "?", "{", "}", ":", ",", " ", "a", "**", "/x|y/", "/[ab]{1, 2}/", "\t"}

// r06Thorough: set by c06Run; in the quick tier the rendering-order check runs on strings of even length only.
var r06Thorough bool

func c06Run(r *core.Run) {
	r06Thorough = r.Thorough()
	r.Rule = "engine E: (0) routes of 100..5000 bytes interleaved with ordinary ones on one parser; (a) ALL strings up to length L over 17 (quick: 15) grammar characters; (b) all token sequences up to T tokens over 12 tokens, explored as a tree that is cut below a string that is not a viable prefix of the grammar (so every accepted string and every first-error string up to T tokens is executed); (c) all derivations of the grammar up to 3 segments / 2 elements / 2 parameters with 0-2 blanks; (d) every single-token deletion, insertion and replacement of derivations; (e) every byte 0..255 and every byte pair inside each token class; oracle: no panic, accept iff the reference recursive-descent recogniser of the README grammar accepts, AST equals the derivation, String() equals the input with blanks normalised, Parse(String()) gives the same structure and String() is idempotent; non-trivial = accepted string"
	r.Assumptions = []string{"strings on which the README character classes and the lexer's differ ('$' in identifiers; ~ @ ! & ' ; % = inside expressions) get no accept/reject verdict (totality and fix-point are still checked); counted as undetermined", "termination is observed per call, not proved"}
	L, T := 5, 7
	r.SetBudget(100 * time.Second)
	if r.Thorough() {
		L, T = 6, 10
		r.SetBudget(12 * time.Minute)
	}
	r.Bounds["string_length"] = L
	r.Bounds["token_sequence_length"] = T
	chars := []string{"/", "?", "{", "}", ":", ",", " ", "a", "*", "\\", "|", "[", ".", "(", "\t", "^", "<"}
	if !r.Thorough() {
		chars = chars[:15] // quick: without the second blank and the second character outside the grammar
	}
	r.Bounds["characters"] = chars
	r.Bounds["tokens"] = c06Tokens

	// (0) lengthy routes (up to a few KiB) between ordinary ones, on one parser and one goroutine: rendering is
	// a function of the route, whatever was rendered before it
	{
		l := core.NewLocal()
		p, _ := route.NewParser()
		small := []string{"/a", "/{x}", "/a/?b", "/{y: /[0-9]+/}-{z}", "/{m: **, capture: 2}"}
		for rep := 0; rep < 3; rep++ {
			for _, n := range []int{100, 255, 256, 257, 300, 1000, 5000} {
				for _, long := range []string{"/" + strings.Repeat("a", n), "/" + strings.Repeat("ab/", n/3) + "{x}", "/{y: /" + strings.Repeat("[ab]", n/4) + "/}"} {
					c06Report(l, p, long, 1<<30, 0)
					l.Extra["lengthy_routes"]++
					for _, sm := range small {
						c06Report(l, p, sm, 1<<30, 0)
					}
				}
			}
		}
		// every grammar character as the first, the last and the only character of an expression (the token
		// sequences of the quick tier end one token short of "/{a:/,/}")
		for _, c := range chars[:15] {
			for _, v := range []string{c, "x" + c, c + "x", "x" + c + "x"} {
				for _, form := range []string{"/{a:/%s/}", "/{a: /%s/}", "/{a: /%s/}/b", "/{a: /%s/, b: /%s/}"} {
					c06Report(l, p, strings.ReplaceAll(form, "%s", v), 1<<30, 0)
					l.Extra["expression_edge_characters"]++
				}
			}
		}
		r.Merge(l)
	}
	// (a) all strings: sharded by the first two characters
	type shard struct{ prefix string }
	var shards []string
	shards = append(shards, "")
	for _, a := range chars {
		shards = append(shards, a)
		for _, b := range chars {
			shards = append(shards, a+b)
		}
	}
	r.Parallel(func(w, nw int, l *core.Local) {
		p, _ := route.NewParser()
		n := 0
		for si := w; si < len(shards); si += nw {
			pre := shards[si]
			c06Report(l, p, pre, 1009, n)
			if len(pre) < 2 {
				continue // shorter prefixes are only themselves; the 2-char shards enumerate the rest
			}
			var rec func(s string)
			rec = func(s string) {
				if len(s) >= L {
					return
				}
				for _, c := range chars {
					t := s + c
					n++
					if n%4096 == 0 && r.Expired() {
						return
					}
					c06Report(l, p, t, 1009, n)
					rec(t)
				}
			}
			rec(pre)
		}
		l.States++
	})

	// (b) token sequences, viable-prefix pruned
	var roots []string
	for _, a := range c06Tokens {
		for _, b := range c06Tokens {
			for _, c := range c06Tokens {
				roots = append(roots, a+"\x01"+b+"\x01"+c)
			}
		}
	}
	r.Parallel(func(w, nw int, l *core.Local) {
		p, _ := route.NewParser()
		n := 0
		var rec func(s string, depth int)
		rec = func(s string, depth int) {
			n++
			if n%4096 == 0 && r.Expired() {
				return
			}
			c06Report(l, p, s, 4001, n)
			if depth >= T || !ref.ViablePrefix(s) {
				return
			}
			for _, t := range c06Tokens {
				rec(s+t, depth+1)
			}
		}
		for ri := w; ri < len(roots); ri += nw {
			parts := strings.Split(roots[ri], "\x01")
			// the first three tokens are enumerated without pruning
			s := parts[0] + parts[1] + parts[2]
			if !ref.ViablePrefix(parts[0]) || !ref.ViablePrefix(parts[0]+parts[1]) {
				c06Report(l, p, s, 4001, n)
				continue
			}
			rec(s, 3)
		}
		l.States++
	})

	// (c) derivations and (d) their single-token mutations
	full, reduced := c06Derivations(r.Thorough())
	r.Bounds["derivations"] = len(full)
	r.Parallel(func(w, nw int, l *core.Local) {
		p, _ := route.NewParser()
		for i := w; i < len(full); i += nw {
			if (i/nw)%64 == 0 && r.Expired() {
				return
			}
			c06Report(l, p, full[i], 7001, i)
			// every derivation must be accepted by the reference (self-check of the generator)
			if _, ok, det := ref.Parse(full[i]); !ok || !det {
				l.Violate("harness-self-check", "generated derivation is not accepted by the reference grammar: "+full[i], c06Case{Input: full[i]})
			}
		}
		l.States++
	})
	mutBase := reduced
	step := 1
	if !r.Thorough() {
		step = 11
	}
	r.Bounds["mutated_derivations"] = len(mutBase) / step
	r.Parallel(func(w, nw int, l *core.Local) {
		p, _ := route.NewParser()
		for i := w * step; i < len(mutBase); i += nw * step {
			if r.Expired() {
				return
			}
			toks := c06Tokenise(mutBase[i])
			for pos := 0; pos <= len(toks); pos++ {
				if pos < len(toks) {
					c06Report(l, p, strings.Join(append(append([]string{}, toks[:pos]...), toks[pos+1:]...), ""), 9001, i+pos)
				}
				for _, t := range c06Tokens {
					ins := append(append(append([]string{}, toks[:pos]...), t), toks[pos:]...)
					c06Report(l, p, strings.Join(ins, ""), 9001, i+pos)
					if pos < len(toks) && toks[pos] != t {
						rep := append(append(append([]string{}, toks[:pos]...), t), toks[pos+1:]...)
						c06Report(l, p, strings.Join(rep, ""), 9001, i+pos)
					}
				}
			}
		}
		l.States++
	})

	// (e) bytes inside token classes
	contexts := []string{"/a%sb", "/{a%s}", "/{a%s: v}", "/{a: v%s}", "/{a: /x%sy/}", "/{a:%sv}", "/{a: v,%sb: w}", "%s", "/%s", "/a/%s", "/{a: **, capture: %s}"}
	r.Bounds["byte_contexts"] = contexts
	r.Parallel(func(w, nw int, l *core.Local) {
		p, _ := route.NewParser()
		for b1 := w; b1 < 256; b1 += nw {
			for _, ctx := range contexts {
				c06Report(l, p, strings.Replace(ctx, "%s", string([]byte{byte(b1)}), 1), 5003, b1)
				for b2 := 0; b2 < 256; b2++ {
					if b2%64 == 0 && r.Expired() {
						return
					}
					c06Report(l, p, strings.Replace(ctx, "%s", string([]byte{byte(b1), byte(b2)}), 1), 5003, b1*256+b2)
				}
			}
		}
		l.States++
	})
}

// c06Tokenise splits a generated derivation into the tokens it was built from (regex values kept whole).
func c06Tokenise(s string) []string {
	var out []string
	i := 0
	for i < len(s) {
		if s[i] == '/' && i > 0 && (s[i-1] == ' ' || s[i-1] == ':') {
			j := strings.IndexByte(s[i+1:], '/')
			if j >= 0 {
				out = append(out, s[i:i+j+2])
				i += j + 2
				continue
			}
		}
		if s[i] == '*' && i+1 < len(s) && s[i+1] == '*' {
			out = append(out, "**")
			i += 2
			continue
		}
		out = append(out, s[i:i+1])
		i++
	}
	return out
}

func c06Replay(raw json.RawMessage) (bool, string) {
	var c c06Case
	if err := json.Unmarshal(raw, &c); err != nil {
		return false, err.Error()
	}
	in := c.Input
	if c.Hex != "" {
		var b []byte
		if _, err := fmt.Sscanf(c.Hex, "%x", &b); err == nil {
			in = string(b)
		}
	}
	p, _ := route.NewParser()
	_, _ = p.Parse("/warm/{up: /[a-z]+/}") // the enumeration never runs on a parser without history either
	bad, _, _ := c06Judge(p, in)
	return bad != "", bad
}

func init() {
	core.Register(&core.Check{ID: "C06", Run: c06Run, Replay: c06Replay})
}
