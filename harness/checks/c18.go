package checks

import (
	"encoding/json"
	"fmt"
	"io"
	"math"
	"net/http"
	"net/url"
	"reflect"
	"strconv"
	"strings"
	"time"

	"github.com/flamego/flamego"
	"github.com/flamego/flamego/verifharness/core"
)

// ---- C18: request accessors are total, cookies round-trip byte for byte (engine E) ----

type c18Obs struct {
	Query, QueryD string
	Trim, TrimD   string
	Unesc, UnescD string
	Strs, StrsD   []string
	Bool, BoolD   bool
	Int, IntD     int
	Int64, Int64D int64
	Float, FloatD float64
	Param         string
	ParamInt      int
	ParamInt64    int64
	Cookie        string
	Unstable      bool
	pan           interface{}
}

type c18World struct {
	f   *flamego.Flame
	obs c18Obs
	// keyEscaped: the query names the parameter k as %6B (the same name for every query parser)
	keyEscaped bool
}

func c18Build() *c18World {
	w := &c18World{f: flamego.NewWithLogger(io.Discard)}
	h := func(c flamego.Context) {
		o := &w.obs
		o.Query, o.QueryD = c.Query("k"), c.Query("k", "DEF")
		o.Trim, o.TrimD = c.QueryTrim("k"), c.QueryTrim("k", "DEF")
		o.Unesc, o.UnescD = c.QueryUnescape("k"), c.QueryUnescape("k", "DEF")
		o.Strs, o.StrsD = c.QueryStrings("k"), c.QueryStrings("k", []string{"DEF"})
		o.Bool, o.BoolD = c.QueryBool("k"), c.QueryBool("k", true)
		o.Int, o.IntD = c.QueryInt("k"), c.QueryInt("k", 77)
		o.Int64, o.Int64D = c.QueryInt64("k"), c.QueryInt64("k", 77)
		o.Float, o.FloatD = c.QueryFloat64("k"), c.QueryFloat64("k", 7.5)
		o.Param, o.ParamInt, o.ParamInt64 = c.Param("x"), c.ParamInt("x"), c.ParamInt64("x")
		o.Cookie = c.Cookie("ck")
		// reading again within the same request must give the same answers
		for rep := 0; rep < 2; rep++ {
			if c.Cookie("ck") != o.Cookie || c.Query("k") != o.Query || c.QueryInt("k", 77) != o.IntD || c.Param("x") != o.Param ||
				c.QueryUnescape("k") != o.Unesc || c.QueryTrim("k", "DEF") != o.TrimD {
				o.Unstable = true
			}
		}
	}
	w.f.Get("/p/{x}", h)
	w.f.Get("/q", h)
	// two bind parameters in one route: each is decoded on its own
	w.f.Get("/p2/{x}/{y}", h)
	w.f.Get("/p3/{y}/{x}", h)
	return w
}

type c18Case struct {
	Mode   string `json:"mode"` // query | param | cookie-read | cookie-roundtrip
	RawHex string `json:"raw_hex"`
	Raw    string `json:"raw_quoted"`
	Absent bool   `json:"absent"`
	// nested mode: the handler of GET /p/<raw>?k=<raw> serves GET /r/<inner>?k=<inner> on the same
	// instance (a sub-request) between two reads of its own data, after Warm ordinary requests
	KeyEscaped bool   `json:"parameter_name_percent_escaped_in_the_query,omitempty"`
	Inner      string `json:"inner_request_text,omitempty"`
	Warm       int    `json:"earlier_requests,omitempty"`
}

// c18Siblings: two routes whose first segment is a bind parameter of a different name (placeholder or
// regex), registered in either order: each route's handler must be able to read its own parameter.
// c18MultiBind: a segment with several bind parameters (names not in alphabetical order) followed by further
// bind-carrying segments: every accessor returns each parameter's own text.
func c18MultiBind(first, second, third string) string {
	f := flamego.NewWithLogger(io.Discard)
	var got string
	var yi, zi int
	f.Get("/mb/{y: /[0-9]+/}-{x: /[a-z]+/}/{w}/{a: /[0-9]*/}{z}", func(c flamego.Context) {
		got = fmt.Sprintf("y=%s x=%s w=%s a=%s z=%s", c.Param("y"), c.Param("x"), c.Param("w"), c.Param("a"), c.Param("z"))
		yi, zi = c.ParamInt("y"), c.ParamInt("z")
	})
	var pan interface{}
	func() {
		defer func() { pan = recover() }()
		f.ServeHTTP(&c01Spy{hdr: http.Header{}}, newReq("GET", "/mb/"+first+"-"+second+"/"+third+"/"+first+third))
	}()
	if pan != nil {
		return fmt.Sprintf("panicked: %v", pan)
	}
	n, _ := strconv.Atoi(first)
	nz, _ := strconv.Atoi(third)
	want := fmt.Sprintf("y=%s x=%s w=%s a=%s z=%s", first, second, third, first, third)
	if got != want || yi != n || zi != nz {
		return fmt.Sprintf("handler read %q (ParamInt y=%d z=%d), expected %q (%d, %d)", got, yi, zi, want, n, nz)
	}
	return ""
}

// c18SameSegment: one regex segment (a bind whose expression has a group of its own, then another bind) ends
// one route and sits in the middle of another; in either registration order each route's handler reads its
// own parameters.
func c18SameSegment(leafFirst bool, kind, id string) string {
	f := flamego.NewWithLogger(io.Discard)
	var got [2]string
	var n [2]int
	seg := "/files/{kind: /(img|doc)s/}-{id}"
	regs := []func(){
		func() {
			f.Get(seg, func(c flamego.Context) { got[0] = c.Param("kind") + "|" + c.Param("id"); n[0] = c.ParamInt("id") })
		},
		func() {
			f.Get(seg+"/raw", func(c flamego.Context) { got[1] = c.Param("kind") + "|" + c.Param("id"); n[1] = c.ParamInt("id") })
		},
	}
	if !leafFirst {
		regs[0], regs[1] = regs[1], regs[0]
	}
	var pan interface{}
	func() {
		defer func() { pan = recover() }()
		regs[0]()
		regs[1]()
		f.ServeHTTP(&c01Spy{hdr: http.Header{}}, newReq("GET", "/files/"+kind+"s-"+id))
		f.ServeHTTP(&c01Spy{hdr: http.Header{}}, newReq("GET", "/files/"+kind+"s-"+id+"/raw"))
	}()
	if pan != nil {
		return fmt.Sprintf("panicked: %v", pan)
	}
	want := kind + "s|" + id
	wn, _ := strconv.Atoi(id)
	for i, what := range []string{"the route that ends with the segment", "the route that goes on below the segment"} {
		if got[i] != want || n[i] != wn {
			return fmt.Sprintf("%s read kind|id = %q and ParamInt(id) = %d, expected %q and %d", what, got[i], n[i], want, wn)
		}
	}
	return ""
}

// c18Rewrite: a handler reads the query, the request's query string is replaced (as a middleware that
// strips or rewrites parameters does), and the handler reads again: the accessors answer for the request
// as it is when they are called.
// c18FormParsed: a request with a form body (POST/PUT/PATCH, urlencoded) whose fields carry the names of URL
// parameters, or names the URL does not have: the Query accessors read the URL parameters - before and after
// something in the chain (a form binder, a CSRF check) has had net/http parse the form.
func c18FormParsed(method, urlVal string, urlHas bool, how string) string {
	f := flamego.NewWithLogger(io.Discard)
	type reads struct {
		q, list, only string
		n             int
	}
	var before, after reads
	read := func(c flamego.Context) reads {
		return reads{c.Query("k", "DEF"), strings.Join(c.QueryStrings("k"), "|"), c.Query("bodyonly", "DEF2"), c.QueryInt("k", 77)}
	}
	f.Routes("/q", "POST,PUT,PATCH,GET", func(c flamego.Context) {
		before = read(c)
		switch how {
		case "ParseForm":
			_ = c.Request().ParseForm()
		case "FormValue":
			_ = c.Request().FormValue("k")
		case "PostFormValue":
			_ = c.Request().PostFormValue("bodyonly")
		}
		after = read(c)
	})
	req := newReq(method, "/q")
	if urlHas {
		req.URL.RawQuery = "k=" + url.QueryEscape(urlVal)
	}
	req.Header.Set("Content-Type", "application/x-www-form-urlencoded")
	req.Body = io.NopCloser(strings.NewReader("k=9&bodyonly=b&k=10"))
	var pan interface{}
	func() {
		defer func() { pan = recover() }()
		f.ServeHTTP(&c01Spy{hdr: http.Header{}}, req)
	}()
	if pan != nil {
		return fmt.Sprintf("panicked: %v", pan)
	}
	want := reads{"DEF", "", "DEF2", 77}
	if urlHas && urlVal != "" {
		n, _ := strconv.Atoi(urlVal)
		want = reads{urlVal, urlVal, "DEF2", n}
	} else if urlHas {
		want = reads{"DEF", "", "DEF2", 77}
	}
	if before != want {
		return fmt.Sprintf("%s with a form body, before the form is parsed: read %+v, the URL parameters give %+v", method, before, want)
	}
	if after != want {
		return fmt.Sprintf("%s with a form body, after %s: read %+v, the URL parameters give %+v (before: %+v)", method, how, after, want, before)
	}
	return ""
}

func c18Rewrite(first, second string, secondAbsent bool) string {
	f := flamego.NewWithLogger(io.Discard)
	var a1, a2, s1, s2 string
	var i2 int
	f.Get("/q", func(c flamego.Context) {
		a1 = c.Query("k", "DEF")
		s1 = strings.Join(c.QueryStrings("k"), "|")
		if secondAbsent {
			c.Request().URL.RawQuery = "z=1"
		} else {
			c.Request().URL.RawQuery = "z=1&k=" + url.QueryEscape(second) + "&k=tail"
		}
		a2 = c.Query("k", "DEF")
		s2 = strings.Join(c.QueryStrings("k"), "|")
		i2 = c.QueryInt("k", 77)
	})
	req := newReq("GET", "/q")
	req.URL.RawQuery = "k=" + url.QueryEscape(first)
	var pan interface{}
	func() {
		defer func() { pan = recover() }()
		f.ServeHTTP(&c01Spy{hdr: http.Header{}}, req)
	}()
	if pan != nil {
		return fmt.Sprintf("panicked: %v", pan)
	}
	if a1 != first || s1 != first {
		return fmt.Sprintf("first read: Query = %q, QueryStrings = %q, expected %q", a1, s1, first)
	}
	want, wantS, wantI := second, second+"|tail", 0
	if n, err := strconv.Atoi(second); err == nil || true {
		wantI = n
	}
	if secondAbsent {
		want, wantS, wantI = "DEF", "", 77
	}
	if a2 != want || s2 != wantS || i2 != wantI {
		return fmt.Sprintf("after the request's query string was replaced: Query = %q, QueryStrings = %q, QueryInt = %d, expected %q, %q, %d (first read gave %q)", a2, s2, i2, want, wantS, wantI, a1)
	}
	return ""
}

// (Values of abandoned branches may linger under the other name - documented by Tree.Match - so only the
// route's own parameter is read.)
func c18Siblings(kind string, firstIsO bool, val string) string {
	f := flamego.NewWithLogger(io.Discard)
	var gotO, gotX string
	var intX int
	seg := func(name string) string {
		if kind == "regex" {
			return "{" + name + ": /.+/}"
		}
		return "{" + name + "}"
	}
	regO := func() {
		f.Get("/"+seg("o")+"/r", func(c flamego.Context) { gotO = "o=" + c.Param("o") })
	}
	regX := func() {
		f.Get("/"+seg("x")+"/q", func(c flamego.Context) { gotX = "x=" + c.Param("x"); intX = c.ParamInt("x") })
	}
	if firstIsO {
		regO()
		regX()
	} else {
		regX()
		regO()
	}
	var pan interface{}
	func() {
		defer func() { pan = recover() }()
		f.ServeHTTP(&c01Spy{hdr: http.Header{}}, newReq("GET", "/"+val+"/q"))
		f.ServeHTTP(&c01Spy{hdr: http.Header{}}, newReq("GET", "/"+val+"/r"))
	}()
	if pan != nil {
		return fmt.Sprintf("panicked: %v", pan)
	}
	d := decode1(val)
	n, _ := strconv.Atoi(d)
	if gotX != "x="+d || intX != n {
		return fmt.Sprintf("handler of the route with {x} read %q and ParamInt %d for the segment %q, expected x=%q (%d)", gotX, intX, val, d, n)
	}
	if gotO != "o="+d {
		return fmt.Sprintf("handler of the route with {o} read %q for the segment %q, expected o=%q", gotO, val, d)
	}
	return ""
}

// c18AfterRefused: query accessors of requests with a form body before and after the form is parsed; bind parameters read after requests that the same routes refused half way (a match-all
// that ran over its capture limit, a route that failed at its last segment): what a request reads is what its
// own path holds. One instance, requests in sequence; "" = must be not found.
func c18AfterRefused() (bad string, at int) {
	f := flamego.NewWithLogger(io.Discard)
	var got string
	f.Get("/r/{name}/t/{path: **, capture: 2}/w/{file}", func(c flamego.Context) {
		got = c.Param("name") + "|" + c.Param("path") + "|" + c.Param("file")
	})
	f.Get("/s/{path: **, capture: 1}", func(c flamego.Context) { got = "s|" + c.Param("path") })
	f.Get("/u/{p: **}/v/{q}", func(c flamego.Context) { got = "u|" + c.Param("p") + "|" + c.Param("q") })
	seq := [][2]string{
		{"/r/n1/t/a/b/c/w/f1", ""}, {"/r/n2/t/d/w/f2", "n2|d|f2"}, {"/r/n3/t/a/b/c/d/w/f3", ""}, {"/r/n4/t/e/g/w/f4", "n4|e/g|f4"},
		{"/r/n5/t/e/g/x/f5", ""}, {"/r/n6/t/h/w/f6", "n6|h|f6"}, {"/r/n7/t/i/j/k", ""}, {"/r/n8/t/l/w/f8", "n8|l|f8"},
		{"/s/a/b", ""}, {"/s/c", "s|c"}, {"/s/d/e/f", ""}, {"/s/g", "s|g"},
		{"/u/a/b/x", ""}, {"/u/c/v/d", "u|c|d"}, {"/u/a/b/v", ""}, {"/u/e/f/v/g", "u|e/f|g"},
		{"/r/n9/t/a/b/c/w/f9", ""}, {"/s/h", "s|h"}, {"/r/n0/t/m/w/f0", "n0|m|f0"},
	}
	for i, st := range seq {
		got = ""
		spy := &c01Spy{hdr: http.Header{}}
		var pan interface{}
		func() {
			defer func() { pan = recover() }()
			f.ServeHTTP(spy, newReq("GET", st[0]))
		}()
		if pan != nil {
			return fmt.Sprintf("request %d (%s) panicked: %v", i+1, st[0], pan), i
		}
		if got != st[1] {
			return fmt.Sprintf("request %d of the sequence, GET %s: the handler read %q, its own path holds %q (\"\" = not found)", i+1, st[0], got, st[1]), i
		}
	}
	return "", -1
}

// c18Nested: request data belongs to its request. After warm ordinary requests, the handler of an outer
// request reads its data, serves an inner request on the same instance, and reads its data again.
func c18Nested(outer, inner string, warm int) (bad string) {
	if strings.ContainsAny(outer+inner, "/?#") || outer == "" || inner == "" {
		return ""
	}
	f := flamego.NewWithLogger(io.Discard)
	type snap struct {
		X, Y, K string
		XI      int
		KI      int
		CK      string
	}
	read := func(c flamego.Context) snap {
		return snap{c.Param("x"), c.Param("y"), c.Query("k"), c.ParamInt("x"), c.QueryInt("k", 77), c.Cookie("ck")}
	}
	var before, after, in snap
	nest := false
	mk := func(path, k, ck string) *http.Request {
		req := newReq("GET", path)
		req.URL.RawQuery = "k=" + url.QueryEscape(k)
		req.Header.Set("Cookie", "ck="+ck)
		return req
	}
	f.Get("/p/{x}", func(c flamego.Context) {
		before = read(c)
		if nest {
			f.ServeHTTP(&c01Spy{hdr: http.Header{}}, mk("/r/"+inner, inner, "inner"))
		}
		after = read(c)
	})
	f.Get("/r/{y}", func(c flamego.Context) { in = read(c) })
	var pan interface{}
	func() {
		defer func() { pan = recover() }()
		for i := 0; i < warm; i++ {
			f.ServeHTTP(&c01Spy{hdr: http.Header{}}, mk(fmt.Sprintf("/p/w%d", i), "w", "warm"))
			f.ServeHTTP(&c01Spy{hdr: http.Header{}}, mk(fmt.Sprintf("/r/v%d", i), "v", "warm"))
		}
		nest = true
		f.ServeHTTP(&c01Spy{hdr: http.Header{}}, mk("/p/"+outer, outer, "outer"))
	}()
	if pan != nil {
		return fmt.Sprintf("panicked: %v", pan)
	}
	do, di := decode1(outer), decode1(inner)
	oi, _ := strconv.Atoi(do)
	ok, _ := strconv.Atoi(outer) // as the single-request phase: strconv's value, whatever its error
	wantOuter := snap{X: do, K: outer, XI: oi, KI: ok, CK: "outer"}
	ik, _ := strconv.Atoi(inner)
	wantInner := snap{Y: di, K: inner, KI: ik, CK: "inner"}
	if before != wantOuter {
		return fmt.Sprintf("outer request read %+v before its sub-request, expected %+v", before, wantOuter)
	}
	if in != wantInner {
		return fmt.Sprintf("inner request read %+v, expected %+v", in, wantInner)
	}
	if after != wantOuter {
		return fmt.Sprintf("outer request read %+v after serving a sub-request, expected its own data %+v", after, wantOuter)
	}
	return ""
}

func fbits(f float64) uint64 { return math.Float64bits(f) }

// c18Query: the raw query is "k="+raw (or no k at all); presence and value decided by url.ParseQuery.
func c18Query(w *c18World, raw string, absent bool) (bad, kind, class string) {
	w.obs = c18Obs{}
	req := newReq("GET", "/q")
	if !absent && w.keyEscaped {
		req.URL.RawQuery = "z=1&%6B=" + raw
	} else if !absent {
		req.URL.RawQuery = "z=1&k=" + raw
	} else {
		req.URL.RawQuery = "z=1"
	}
	var pan interface{}
	func() {
		defer func() { pan = recover() }()
		w.f.ServeHTTP(&c01Spy{hdr: http.Header{}}, req)
	}()
	if pan != nil {
		return fmt.Sprintf("panicked: %v", pan), "panic", ""
	}
	if w.obs.Unstable {
		return "reading the same accessor again within one request gives a different answer", "repeated-read", ""
	}
	vals, _ := url.ParseQuery(req.URL.RawQuery)
	list, inMap := vals["k"]
	v := vals.Get("k")
	o := w.obs
	empty := v == ""
	pick := func(def string) string {
		if empty {
			return def
		}
		return v
	}
	chk := func(name string, got, want interface{}) string {
		if !reflect.DeepEqual(got, want) {
			return fmt.Sprintf("%s = %#v, expected %#v (value %q, present=%v)", name, got, want, v, !empty)
		}
		return ""
	}
	unesc := func(s string) string { u, _ := url.QueryUnescape(s); return u }
	pi := func(bits int) int64 { i, _ := strconv.ParseInt(v, 10, bits); return i }
	pb, _ := strconv.ParseBool(v)
	pf, _ := strconv.ParseFloat(v, 64)
	var wantStrs, wantStrsD []string
	if inMap {
		wantStrs, wantStrsD = list, list
	} else {
		wantStrs, wantStrsD = []string{}, []string{"DEF"}
	}
	wantBoolD, wantIntD, wantInt64D, wantFloatD := pb, int(pi(0)), pi(64), pf
	if empty {
		wantBoolD, wantIntD, wantInt64D, wantFloatD = true, 77, 77, 7.5
	}
	checks := []string{
		chk("Query", o.Query, v), chk("Query(default)", o.QueryD, pick("DEF")),
		chk("QueryTrim", o.Trim, strings.TrimSpace(v)), chk("QueryTrim(default)", o.TrimD, strings.TrimSpace(pick("DEF"))),
		chk("QueryUnescape", o.Unesc, unesc(v)), chk("QueryUnescape(default)", o.UnescD, unesc(pick("DEF"))),
		chk("QueryStrings", o.Strs, wantStrs), chk("QueryStrings(default)", o.StrsD, wantStrsD),
		chk("QueryBool", o.Bool, pb), chk("QueryBool(default)", o.BoolD, wantBoolD),
		chk("QueryInt", o.Int, int(pi(0))), chk("QueryInt(default)", o.IntD, wantIntD),
		chk("QueryInt64", o.Int64, pi(64)), chk("QueryInt64(default)", o.Int64D, wantInt64D),
		chk("QueryFloat64", fbits(o.Float), fbits(pf)), chk("QueryFloat64(default)", fbits(o.FloatD), fbits(wantFloatD)),
	}
	for _, c := range checks {
		if c != "" {
			return c, "query/" + strings.SplitN(c, " ", 2)[0], ""
		}
	}
	switch {
	case !inMap:
		return "", "", "query:absent"
	case empty:
		return "", "", "query:empty"
	default:
		if _, err := strconv.ParseFloat(v, 64); err == nil {
			return "", "", "query:present-numeric"
		}
		return "", "", "query:present-text"
	}
}

func c18Param(w *c18World, raw string) (bad, kind, class string) {
	if strings.Contains(raw, "/") {
		return "", "", ""
	}
	w.obs = c18Obs{}
	var pan interface{}
	func() {
		defer func() { pan = recover() }()
		w.f.ServeHTTP(&c01Spy{hdr: http.Header{}}, newReq("GET", "/p/"+raw))
	}()
	if pan != nil {
		return fmt.Sprintf("panicked: %v", pan), "panic", ""
	}
	if w.obs.Unstable {
		return "reading the same accessor again within one request gives a different answer", "repeated-read", ""
	}
	want := decode1(raw)
	o := w.obs
	ai, _ := strconv.Atoi(want)
	a64, _ := strconv.ParseInt(want, 10, 64)
	if o.Param != want {
		return fmt.Sprintf("Param = %q, expected %q", o.Param, want), "param/Param", ""
	}
	if o.ParamInt != ai || o.ParamInt64 != a64 {
		return fmt.Sprintf("ParamInt/ParamInt64 = %d/%d, expected %d/%d for %q", o.ParamInt, o.ParamInt64, ai, a64, want), "param/ParamInt", ""
	}
	// the same text next to a parameter whose text cannot be decoded (%zz stays as it is), on either side
	for _, path := range []string{"/p2/" + raw + "/%zz", "/p3/%zz/" + raw, "/p2/" + raw + "/%2561"} {
		w.obs = c18Obs{}
		func() {
			defer func() { pan = recover() }()
			w.f.ServeHTTP(&c01Spy{hdr: http.Header{}}, newReq("GET", path))
		}()
		if pan != nil {
			return fmt.Sprintf("panicked: %v (path %q)", pan, path), "panic", ""
		}
		if w.obs.Param != want || w.obs.ParamInt != ai {
			return fmt.Sprintf("Param = %q / ParamInt = %d, expected %q / %d (request %q: two bind parameters, the other one %s)", w.obs.Param, w.obs.ParamInt, want, ai, path, path[strings.LastIndex(path, "%"):]), "param/next-to-another-parameter", ""
		}
	}
	if _, err := strconv.Atoi(want); err == nil {
		return "", "", "param:numeric"
	}
	return "", "", "param:text"
}

// c18CookieRead: a Cookie header as a client might send it.
func c18CookieRead(w *c18World, raw string, absent bool) (bad, kind, class string) {
	w.obs = c18Obs{}
	req := newReq("GET", "/q")
	if !absent {
		req.Header.Set("Cookie", "other=1; ck="+raw)
	} else {
		req.Header.Set("Cookie", "other=1")
	}
	var pan interface{}
	func() {
		defer func() { pan = recover() }()
		w.f.ServeHTTP(&c01Spy{hdr: http.Header{}}, req)
	}()
	if pan != nil {
		return fmt.Sprintf("panicked: %v", pan), "panic", ""
	}
	if w.obs.Unstable {
		return "reading the same cookie again within one request gives a different answer", "repeated-read", ""
	}
	want := ""
	if ck, err := req.Cookie("ck"); err == nil {
		want = ck.Value
		if u, err := url.QueryUnescape(ck.Value); err == nil {
			want = u
		}
	}
	if w.obs.Cookie != want {
		return fmt.Sprintf("Cookie = %q, expected %q", w.obs.Cookie, want), "cookie-read", ""
	}
	if want == "" {
		return "", "", "cookie:absent-or-empty"
	}
	return "", "", "cookie:present"
}

// c18RoundTrip: SetCookie -> Set-Cookie header -> client -> Cookie header -> Cookie().
func c18RoundTrip(value string) (bad string) {
	f := flamego.NewWithLogger(io.Discard)
	got := "\x00unset"
	f.Get("/set", func(c flamego.Context) { c.SetCookie(http.Cookie{Name: "ck", Value: value, Path: "/"}) })
	f.Get("/get", func(c flamego.Context) {
		got = c.Cookie("ck")
		if again := c.Cookie("ck"); again != got {
			got = "\x00second read differs: " + again
		}
	})
	return c18RoundTripOn(f, &got, value)
}

// c18RoundTripVia: the cookie is set at another moment of the request than the handler body - inside a function
// registered to run before the first write (as a session middleware saves its cookie), or by a middleware after
// Next() returned with nothing written yet. The headers have not gone out at either moment.
func c18RoundTripVia(value, how string) (bad string) {
	f := flamego.NewWithLogger(io.Discard)
	got := "\x00unset"
	set := func(c flamego.Context) { c.SetCookie(http.Cookie{Name: "ck", Value: value, Path: "/"}) }
	switch how {
	case "before-function":
		f.Get("/set", func(c flamego.Context) {
			c.ResponseWriter().Before(func(flamego.ResponseWriter) { set(c) })
			_, _ = c.ResponseWriter().Write([]byte("body"))
		})
	case "before-function/explicit-status":
		f.Get("/set", func(c flamego.Context) {
			c.ResponseWriter().Before(func(flamego.ResponseWriter) { set(c) })
			c.ResponseWriter().WriteHeader(204)
		})
	case "after-next":
		f.Get("/set", func(c flamego.Context) { c.Next(); set(c) }, func() {})
	case "set-thrice(value,other,value)":
		// the cookie is set, set to another value and set back: the client applies the three fields in order
		f.Get("/set", func(c flamego.Context) {
			set(c)
			c.SetCookie(http.Cookie{Name: "ck", Value: "other-" + value, Path: "/"})
			set(c)
		})
	}
	f.Get("/get", func(c flamego.Context) { got = c.Cookie("ck") })
	if bad = c18RoundTripOn(f, &got, value); bad != "" {
		return "cookie set " + how + ": " + bad
	}
	return ""
}

func c18RoundTripOn(f *flamego.Flame, got *string, value string) (bad string) {
	spy := &c01Spy{hdr: http.Header{}}
	var pan interface{}
	func() {
		defer func() { pan = recover() }()
		f.ServeHTTP(spy, newReq("GET", "/set"))
	}()
	if pan != nil {
		return fmt.Sprintf("SetCookie panicked: %v", pan)
	}
	resp := &http.Response{Header: spy.hdr}
	cks := resp.Cookies()
	if len(cks) == 3 && cks[0].Name == "ck" && cks[1].Name == "ck" && cks[2].Name == "ck" {
		cks = cks[2:] // set three times: a client keeps what the last field says
	}
	if len(cks) != 1 || cks[0].Name != "ck" {
		return fmt.Sprintf("client sees %d cookies in Set-Cookie %q", len(cks), spy.hdr["Set-Cookie"])
	}
	req := newReq("GET", "/get")
	req.AddCookie(&http.Cookie{Name: cks[0].Name, Value: cks[0].Value})
	*got = "\x00unset"
	func() {
		defer func() { pan = recover() }()
		f.ServeHTTP(&c01Spy{hdr: http.Header{}}, req)
	}()
	if pan != nil {
		return fmt.Sprintf("Cookie panicked: %v", pan)
	}
	if *got != value {
		return fmt.Sprintf("cookie value %q read back as %q (wire form %q)", value, *got, cks[0].Value)
	}
	// the client sends its cookies in two Cookie header fields, this one in the second (and, once more, in the
	// first, behind another cookie in the same field)
	for _, lines := range [][]string{{"other=1", cks[0].Name + "=" + cks[0].Value}, {"first=1; " + cks[0].Name + "=" + cks[0].Value, "other=2"}} {
		req := newReq("GET", "/get")
		req.Header["Cookie"] = lines
		*got = "\x00unset"
		func() {
			defer func() { pan = recover() }()
			f.ServeHTTP(&c01Spy{hdr: http.Header{}}, req)
		}()
		if pan != nil {
			return fmt.Sprintf("Cookie panicked: %v", pan)
		}
		if *got != value {
			return fmt.Sprintf("cookie value %q read back as %q when the request carries the Cookie header fields %q", value, *got, lines)
		}
	}
	return ""
}

// c18Several: several cookies set on one response; the client returns them all (the last one of each
// name); every one must read back byte for byte.
func c18Several(names []string, val string) string {
	f := flamego.NewWithLogger(io.Discard)
	got := map[string]string{}
	f.Get("/set", func(c flamego.Context) {
		for i, n := range names {
			c.SetCookie(http.Cookie{Name: n, Value: fmt.Sprintf("%s#%d", val, i), Path: "/"})
		}
	})
	f.Get("/get", func(c flamego.Context) {
		for _, n := range names {
			got[n] = c.Cookie(n)
		}
	})
	spy := &c01Spy{hdr: http.Header{}}
	f.ServeHTTP(spy, newReq("GET", "/set"))
	req := newReq("GET", "/get")
	last := map[string]string{}
	var order []string
	for _, ck := range (&http.Response{Header: spy.hdr}).Cookies() {
		if _, seen := last[ck.Name]; !seen {
			order = append(order, ck.Name)
		}
		last[ck.Name] = ck.Value
	}
	for _, n := range order {
		req.AddCookie(&http.Cookie{Name: n, Value: last[n]})
	}
	f.ServeHTTP(&c01Spy{hdr: http.Header{}}, req)
	want := map[string]string{}
	for i, n := range names {
		want[n] = fmt.Sprintf("%s#%d", val, i)
	}
	if !reflect.DeepEqual(got, want) {
		return fmt.Sprintf("cookies %v set on one response with values %q#i read back as %v, expected %v (Set-Cookie headers: %q)", names, val, got, want, spy.hdr["Set-Cookie"])
	}
	return ""
}

func c18Run(r *core.Run) {
	r.SetBudget(80 * time.Second)
	maxLen := 2
	if r.Thorough() {
		maxLen = 3
		r.SetBudget(12 * time.Minute)
	}
	r.Rule = "engine E: raw query text / bind parameter text / cookie text = absent, empty, EVERY byte string of length <=2 (thorough 3) over all 256 bytes, and a numeric corpus (signs, bases, overflow, 1e999, NaN, blanks) through every accessor with and without a default (queries also with the parameter name percent-escaped); cookie values of every byte string of length <=2 (thorough 3) through SetCookie -> Set-Cookie -> client -> Cookie header -> Cookie(); oracle: no panic, presence by url.ParseQuery / http.Request.Cookie, value by strconv (0 on malformed), absent or empty gives the default or zero, cookies read back byte for byte (also when set inside a before-function of the writer or after Next()); request data read before and after a sub-request served on the same instance inside the handler (after 0..2 earlier requests) is the request's own; query accessors of requests with a form body before and after the form is parsed; bind parameters read after requests that the same routes refused half way (capture limit overrun, last segment missing); non-trivial = text that is present and non-numeric, or a cookie value containing a byte outside [A-Za-z0-9]"
	r.Assumptions = []string{"net/url, net/http cookie parsing and strconv are the reference parsers (trusted)", "QueryTrim/QueryUnescape apply their conversion to the default as well; the default used (DEF) is not altered by either", "QueryStrings returns the list as parsed when the key occurs at all (a list holding one empty string is a present list)"}
	numeric := []string{"0", "1", "-1", "+1", "007", "12345678901234567890", "-9223372036854775808", "9223372036854775807", "9223372036854775808", "0x10", "1e3", "1e999", "-1e999", "NaN", "nan", "Inf", "-inf", " 1", "1 ", "1_000", "1.5", ".5", "5.", "true", "TRUE", "t", "T", "1", "false", "F", "yes", "１", "%31", "%2B1", "+", "-", "1%001",
		// blanks beyond ASCII around a value (QueryTrim trims what unicode calls white space)
		"\u00a0x\u00a0", "\u3000x", "x\u2028", "\u0085x\u0085", "\u2003 x \u2003", "\u00a0", "\vx\f", "\u200bx", "\ufeffx",
		// values that still hold a percent sign once the query string is decoded (well-formed and malformed escapes)
		"%25", "100%25", "%25zz-top", "%2541", "a%254",
		// the parameter given several times (first value counts; the list accessor returns all), other spellings of the name
		"a&k=b", "&k=b", "1&k=2", "&k=", "a&K=b", "a&%6b=b", "a&k", "a&k=b&k=c"}
	bytesUpTo := func(n int) int {
		t := 0
		p := 1
		for i := 1; i <= n; i++ {
			p *= 256
			t += p
		}
		return t
	}
	total := bytesUpTo(maxLen)
	r.Bounds["byte_strings"] = total
	r.Bounds["numeric_corpus"] = len(numeric)
	strAt := func(i int) string {
		// enumerate strings of length 1..maxLen in order
		l := 1
		p := 256
		for i >= p {
			i -= p
			p *= 256
			l++
		}
		b := make([]byte, l)
		for k := l - 1; k >= 0; k-- {
			b[k] = byte(i % 256)
			i /= 256
		}
		return string(b)
	}
	r.Parallel(func(w, nw int, l *core.Local) {
		world := c18Build()
		f := flamego.NewWithLogger(io.Discard)
		got := ""
		var cur string
		f.Get("/set", func(c flamego.Context) { c.SetCookie(http.Cookie{Name: "ck", Value: cur, Path: "/"}) })
		f.Get("/get", func(c flamego.Context) {
			got = c.Cookie("ck")
			if again := c.Cookie("ck"); again != got {
				got = "\x00second read differs: " + again
			}
		})
		if w == 0 {
			l.States += 2
		}
		report := func(mode, raw string, absent bool, bad, kind, class string) {
			l.Evals++
			l.Transitions++
			l.Traces++
			if bad != "" {
				l.Class("mismatch")
				l.Violate(kind, bad+fmt.Sprintf(" [%s text %q absent=%v]", mode, raw, absent), c18Case{Mode: mode, RawHex: fmt.Sprintf("%x", raw), Raw: fmt.Sprintf("%q", raw), Absent: absent})
				return
			}
			if class != "" {
				l.Class(class)
			}
			if strings.HasSuffix(class, "text") || strings.HasSuffix(class, "present") {
				l.NonTrivial++
			}
		}
		if w == 0 {
			for _, absent := range []bool{true, false} {
				b, k, c := c18Query(world, "", absent)
				report("query", "", absent, b, k, c)
				b, k, c = c18CookieRead(world, "", absent)
				report("cookie-read", "", absent, b, k, c)
			}
			for _, n := range numeric {
				b, k, c := c18Query(world, n, false)
				report("query", n, false, b, k, c)
				b, k, c = c18Param(world, n)
				report("param", n, false, b, k, c)
				b, k, c = c18CookieRead(world, n, false)
				report("cookie-read", n, false, b, k, c)
			}
		}
		for i := w; i < total; i += nw {
			if (i/nw)%128 == 0 && r.Expired() {
				return
			}
			s := strAt(i)
			b, k, c := c18Query(world, s, false)
			report("query", s, false, b, k, c)
			if i < bytesUpTo(2) || i%5 == 0 {
				world.keyEscaped = true
				b, k, c = c18Query(world, s, false)
				world.keyEscaped = false
				if b != "" {
					k += "/escaped-name"
				}
				report("query-escaped-name", s, false, b, k, c)
			}
			if i < bytesUpTo(2) || i%3 == 0 {
				b, k, c = c18Param(world, s)
				if c != "" || b != "" {
					report("param", s, false, b, k, c)
				}
				b, k, c = c18CookieRead(world, s, false)
				report("cookie-read", s, false, b, k, c)
			}
			cur = s
			l.Evals++
			l.Transitions++
			l.Traces++
			if bad := c18RoundTripOn(f, &got, s); bad != "" {
				l.Class("mismatch")
				l.Violate("cookie-roundtrip", bad, c18Case{Mode: "cookie-roundtrip", RawHex: fmt.Sprintf("%x", s), Raw: fmt.Sprintf("%q", s), Absent: false})
			} else {
				l.Class("cookie:round-trip")
				l.NonTrivial++
				if i%40009 == 0 {
					l.Sample(map[string]string{"mode": "cookie-roundtrip", "value": fmt.Sprintf("%q", s)})
				}
			}
		}
	})
	// several cookies set on one response, names that are prefixes of one another, in both orders; the
	// client returns them all; every one must read back byte for byte
	l := core.NewLocal()
	for _, names := range [][]string{{"session_id", "session"}, {"session", "session_id"}, {"a", "ab", "abc"}, {"abc", "ab", "a"}, {"ck", "ck"}, {"x", "y", "x"}} {
		for _, val := range []string{"v", "a+b/c=d e;", "%41"} {
			l.Evals++
			l.Transitions++
			l.Traces++
			l.NonTrivial++
			if bad := c18Several(names, val); bad != "" {
				l.Violate("cookie-roundtrip/several-cookies", bad, c18Case{Mode: "several-cookies", RawHex: fmt.Sprintf("%x", strings.Join(names, ",")), Raw: val, Absent: false})
			} else {
				l.Class("cookie:several-on-one-response")
			}
		}
	}
	for _, method := range []string{"POST", "PUT", "PATCH", "GET"} {
		for _, how := range []string{"ParseForm", "FormValue", "PostFormValue"} {
			for _, uv := range []string{"7", "x y", "", "\x00absent"} {
				l.Evals++
				l.Transitions += 2
				l.Traces++
				l.NonTrivial++
				l.States++
				has := uv != "\x00absent"
				v := uv
				if !has {
					v = ""
				}
				if bad := c18FormParsed(method, v, has, how); bad != "" {
					l.Violate("query-after-the-form-was-parsed/"+how, bad, c18Case{Mode: "form-parsed", RawHex: fmt.Sprintf("%x", v), Raw: method, Inner: how, Absent: !has})
				} else {
					l.Class("query:request-with-a-form-body")
				}
			}
		}
	}
	{
		l.Evals += 19
		l.Transitions += 19
		l.Traces++
		l.NonTrivial++
		l.States++
		if bad, _ := c18AfterRefused(); bad != "" {
			l.Violate("param-after-refused-requests", bad, c18Case{Mode: "after-refused"})
		} else {
			l.Class("param:after-requests-refused-half-way")
		}
	}
	// request data read around a sub-request served on the same instance, after 0..2 earlier requests
	nestVals := append([]string{"a", "b", "%41", "x y", "\xff", "-"}, numeric[:12]...)
	for warm := 0; warm <= 2; warm++ {
		for _, outer := range nestVals {
			for _, inner := range nestVals {
				if strings.ContainsAny(outer+inner, "/?# ;,\\\"") {
					continue
				}
				l.Evals++
				l.Transitions += int64(2 + 2*warm)
				l.Traces++
				l.NonTrivial++
				l.States++
				if bad := c18Nested(outer, inner, warm); bad != "" {
					l.Violate("request-data-after-sub-request", bad+fmt.Sprintf(" [outer %q inner %q after %d earlier request pairs]", outer, inner, warm), c18Case{Mode: "nested", RawHex: fmt.Sprintf("%x", outer), Raw: fmt.Sprintf("%q", outer), Inner: inner, Warm: warm})
				} else {
					l.Class("nested:each-request-reads-its-own-data")
				}
			}
		}
	}
	for _, leafFirst := range []bool{true, false} {
		for _, kind := range []string{"img", "doc"} {
			for _, id := range []string{"42", "x", "007"} {
				l.Evals++
				l.Transitions += 2
				l.Traces++
				l.NonTrivial++
				if bad := c18SameSegment(leafFirst, kind, id); bad != "" {
					l.Violate("param-of-a-segment-shared-by-two-routes", bad, c18Case{Mode: "same-segment", RawHex: fmt.Sprintf("%x", kind), Raw: id, Absent: leafFirst})
				} else {
					l.Class("param:segment-shared-by-two-routes")
				}
			}
		}
	}
	for _, a := range []string{"0", "7", "12", "2024"} {
		for _, b := range []string{"a", "ab", "q"} {
			for _, c := range []string{"t", "9", "zz"} {
				l.Evals++
				l.Transitions++
				l.Traces++
				l.NonTrivial++
				if bad := c18MultiBind(a, b, c); bad != "" {
					l.Violate("param-of-a-multi-bind-segment", bad, c18Case{Mode: "multibind", RawHex: fmt.Sprintf("%x", a), Raw: b, Inner: c})
				} else {
					l.Class("param:multi-bind-segment")
				}
			}
		}
	}
	for _, a := range nestVals {
		for _, b := range nestVals {
			for _, absent := range []bool{false, true} {
				l.Evals++
				l.Transitions += 2
				l.Traces++
				l.NonTrivial++
				if bad := c18Rewrite(a, b, absent); bad != "" {
					l.Violate("query-after-the-query-string-was-replaced", bad, c18Case{Mode: "rewrite", RawHex: fmt.Sprintf("%x", a), Raw: fmt.Sprintf("%q", a), Inner: b, Absent: absent})
				} else {
					l.Class("query:read-rewrite-read")
				}
			}
		}
	}
	for _, kind := range []string{"placeholder", "regex"} {
		for _, firstIsO := range []bool{true, false} {
			for _, v := range nestVals {
				if strings.ContainsAny(v, "/?# ;,\\\"") {
					continue
				}
				l.Evals++
				l.Transitions += 2
				l.Traces++
				l.NonTrivial++
				l.States++
				if bad := c18Siblings(kind, firstIsO, v); bad != "" {
					l.Violate("param-of-sibling-routes/"+kind, bad, c18Case{Mode: "siblings-" + kind, RawHex: fmt.Sprintf("%x", v), Raw: fmt.Sprintf("%q", v), Absent: firstIsO})
				} else {
					l.Class("param:sibling-routes-with-different-names")
				}
			}
		}
	}
	for _, v := range []string{"", "hello world", "a=b; c=d", "\"quoted\"", strings.Repeat("\xff\x00 ;,", 200), "ünïcödé ☃", "%41%zz%", "+ +"} {
		l.Evals++
		l.Transitions++
		l.Traces++
		if bad := c18RoundTrip(v); bad != "" {
			l.Violate("cookie-roundtrip", bad, c18Case{Mode: "cookie-roundtrip", RawHex: fmt.Sprintf("%x", v), Raw: fmt.Sprintf("%q", trunc(v)), Absent: false})
		} else {
			l.Class("cookie:round-trip")
		}
		for _, how := range []string{"before-function", "before-function/explicit-status", "after-next", "set-thrice(value,other,value)"} {
			l.Evals++
			l.Transitions++
			l.Traces++
			l.NonTrivial++
			if bad := c18RoundTripVia(v, how); bad != "" {
				l.Violate("cookie-roundtrip/"+how, bad, c18Case{Mode: "cookie-roundtrip-via", RawHex: fmt.Sprintf("%x", v), Raw: fmt.Sprintf("%q", trunc(v)), Inner: how})
			} else {
				l.Class("cookie:round-trip:" + how)
			}
		}
	}
	r.Merge(l)
}

func c18Replay(raw json.RawMessage) (bool, string) {
	var c c18Case
	if err := json.Unmarshal(raw, &c); err != nil {
		return false, err.Error()
	}
	var b []byte
	if c.RawHex != "" {
		if _, err := fmt.Sscanf(c.RawHex, "%x", &b); err != nil {
			return false, err.Error()
		}
	}
	s := string(b)
	w := c18Build()
	var bad string
	switch c.Mode {
	case "query":
		bad, _, _ = c18Query(w, s, c.Absent)
	case "query-escaped-name":
		w.keyEscaped = true
		bad, _, _ = c18Query(w, s, c.Absent)
	case "param":
		bad, _, _ = c18Param(w, s)
	case "cookie-read":
		bad, _, _ = c18CookieRead(w, s, c.Absent)
	case "cookie-roundtrip":
		bad = c18RoundTrip(s)
	case "cookie-roundtrip-via":
		bad = c18RoundTripVia(s, c.Inner)
	case "same-segment":
		bad = c18SameSegment(c.Absent, s, c.Raw)
	case "multibind":
		bad = c18MultiBind(s, c.Raw, c.Inner)
	case "rewrite":
		bad = c18Rewrite(s, c.Inner, c.Absent)
	case "siblings-placeholder":
		bad = c18Siblings("placeholder", c.Absent, s)
	case "siblings-regex":
		bad = c18Siblings("regex", c.Absent, s)
	case "nested":
		bad = c18Nested(s, c.Inner, c.Warm)
	case "after-refused":
		bad, _ = c18AfterRefused()
	case "form-parsed":
		bad = c18FormParsed(c.Raw, s, !c.Absent, c.Inner)
	case "several-cookies":
		bad = c18Several(strings.Split(s, ","), c.Raw)
	}
	return bad != "", bad
}

func init() {
	core.Register(&core.Check{ID: "C18", Run: c18Run, Replay: c18Replay})
}
