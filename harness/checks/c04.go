package checks

import (
	"encoding/json"
	"errors"
	"fmt"
	"io"
	"net/http"
	"reflect"
	"sort"
	"strings"
	"time"

	"github.com/charmbracelet/log"

	"github.com/flamego/flamego"
	"github.com/flamego/flamego/inject"
	"github.com/flamego/flamego/verifharness/core"
)

// ---- C04: dependency injection by type, nearest scope first (engine E) ----

type c04T1 struct{ Tag string }

func (*c04T1) MI() {}

type c04T2 struct{ Tag string }

func (c04T2) MI() {}

// c04Both implements I and J: registered under the key I it must NOT satisfy a request for J
// (resolution goes by the type a value is registered under, not by what the value happens to be).
type c04Both struct{ Tag string }

func (c04Both) MI() {}
func (c04Both) MJ() {}

type c04NS string

type c04I interface{ MI() }
type c04J interface{ MJ() }

// c04IJ is an interface type that itself implements I and J: a value registered under the key IJ answers
// for I and for J in its scope as any other implementing registration does.
type c04IJ interface {
	MI()
	MJ()
}

var (
	c04TypT1  = reflect.TypeOf(c04T1{})
	c04TypPT1 = reflect.TypeOf(&c04T1{})
	c04TypT2  = reflect.TypeOf(c04T2{})
	c04TypNS  = reflect.TypeOf(c04NS(""))
	c04TypCh  = reflect.TypeOf((chan<- int)(nil))
	c04TypI   = reflect.TypeOf((*c04I)(nil)).Elem()
	c04TypJ   = reflect.TypeOf((*c04J)(nil)).Elem()
	c04TypIJ  = reflect.TypeOf((*c04IJ)(nil)).Elem()
	// (the presence masks of the static configurations cover the first seven; IJ is registered in histories)
	// the interface without methods: every registered type implements it
	c04TypAny = reflect.TypeOf((*interface{})(nil)).Elem()
	c04Types  = []reflect.Type{c04TypT1, c04TypPT1, c04TypT2, c04TypNS, c04TypCh, c04TypI, c04TypJ, c04TypIJ, c04TypAny}
	c04Names  = []string{"T1", "*T1", "T2", "NS", "chan<- int", "I", "J", "IJ", "interface{}"}
)

// chans maps channel identity to a tag (channels carry no data we could tag).
type c04Reg struct {
	chTags map[uintptr]string
}

func (r *c04Reg) id(v reflect.Value) string {
	if !v.IsValid() {
		return "<invalid>"
	}
	for v.Kind() == reflect.Interface && !v.IsNil() {
		v = v.Elem()
	}
	switch v.Type() {
	case c04TypT1:
		return "T1:" + v.Interface().(c04T1).Tag
	case c04TypPT1:
		if v.IsNil() {
			return "*T1:<nil>"
		}
		return "*T1:" + v.Interface().(*c04T1).Tag
	case c04TypT2:
		return "T2:" + v.Interface().(c04T2).Tag
	case c04TypNS:
		return "NS:" + string(v.Interface().(c04NS))
	case c04TypCh:
		if v.IsNil() {
			return "chan:<nil>"
		}
		return "chan:" + r.chTags[v.Pointer()]
	case reflect.TypeOf(c04Both{}):
		return "Both:" + v.Interface().(c04Both).Tag
	case reflect.TypeOf(c04JImpl{}):
		return "JImpl:" + v.Interface().(c04JImpl).Tag
	}
	return fmt.Sprintf("?%v", v.Type())
}

// mkValue creates a fresh tagged value registrable under type index ti. For the interface keys
// variant selects which implementing concrete type carries the value.
func (r *c04Reg) mkValue(ti int, tag string, variant int) reflect.Value {
	switch ti {
	case 0:
		return reflect.ValueOf(c04T1{tag})
	case 1:
		return reflect.ValueOf(&c04T1{tag})
	case 2:
		return reflect.ValueOf(c04T2{tag})
	case 3:
		return reflect.ValueOf(c04NS(tag))
	case 4:
		ch := make(chan int)
		var so chan<- int = ch
		v := reflect.ValueOf(so)
		r.chTags[v.Pointer()] = tag
		return v
	case 5: // under key I: a value of an implementing type
		switch variant % 3 {
		case 0:
			return reflect.ValueOf(&c04T1{tag})
		case 1:
			return reflect.ValueOf(c04T2{tag})
		}
		return reflect.ValueOf(c04Both{tag})
	case 6: // under key J: nothing in the universe implements J; a dedicated implementor
		return reflect.ValueOf(c04JImpl{tag})
	case 7: // under key IJ
		return reflect.ValueOf(c04Both{tag})
	case 8: // under key interface{}
		return reflect.ValueOf(c04NS(tag))
	}
	panic("ti")
}

type c04JImpl struct{ Tag string }

func (c04JImpl) MJ() {}

// register puts v under type index ti into inj using the given API.
func c04Register(inj inject.Injector, ti int, v reflect.Value, api string) {
	switch {
	case api == "Set" || ti == 4:
		inj.Set(c04Types[ti], v)
	case ti == 5:
		inj.MapTo(v.Interface(), (*c04I)(nil))
	case ti == 6:
		inj.MapTo(v.Interface(), (*c04J)(nil))
	case ti == 7:
		inj.MapTo(v.Interface(), (*c04IJ)(nil))
	case ti == 8:
		inj.MapTo(v.Interface(), (*interface{})(nil))
	default:
		inj.Map(v.Interface())
	}
}

type c04Scope map[reflect.Type]reflect.Value

// c04Resolve is the reference: exact registration in the nearest scope, else for an interface the
// SET of values registered in that scope under implementing types, before any outer scope.
func c04Resolve(scopes []c04Scope, t reflect.Type) (allowed []reflect.Value) {
	for _, s := range scopes {
		if v, ok := s[t]; ok {
			return []reflect.Value{v}
		}
		if t.Kind() == reflect.Interface {
			for k, v := range s {
				if k.Implements(t) {
					allowed = append(allowed, v)
				}
			}
			if len(allowed) > 0 {
				return allowed
			}
		}
	}
	return nil
}

type c04Config struct {
	Scopes int    `json:"scopes"`
	Masks  []int  `json:"presence_mask_per_scope_inner_first"` // bit i: type i registered
	API    string `json:"api"`
	Twice  bool   `json:"registered_twice"`
	// Nil: the values registered in the innermost scope for *T1, the channel and (through a *T1) I are
	// typed nils; a typed nil is a registered value like any other
	Nil bool `json:"typed_nil_values_in_inner_scope,omitempty"`
}

func (c c04Config) String() string {
	var parts []string
	for s, m := range c.Masks {
		var ts []string
		for i, n := range c04Names {
			if m&(1<<i) != 0 {
				ts = append(ts, n)
			}
		}
		parts = append(parts, fmt.Sprintf("scope%d{%s}", s, strings.Join(ts, ",")))
	}
	return strings.Join(parts, " <- ") + " api=" + c.API + fmt.Sprintf(" twice=%v typed-nil-inner=%v", c.Twice, c.Nil)
}

// c04Build creates real injectors (inner first; parent chain set) and the model scopes.
func c04Build(c c04Config) (inner inject.Injector, scopes []c04Scope, reg *c04Reg) {
	reg = &c04Reg{chTags: map[uintptr]string{}}
	injs := make([]inject.Injector, c.Scopes)
	for s := range injs {
		injs[s] = inject.New()
		sc := c04Scope{}
		for ti := range c04Types {
			if c.Masks[s]&(1<<ti) == 0 {
				continue
			}
			if c.Twice {
				old := reg.mkValue(ti, fmt.Sprintf("s%d-old", s), s+ti+1)
				c04Register(injs[s], ti, old, "Map")
			}
			v := reg.mkValue(ti, fmt.Sprintf("s%d", s), s+ti)
			if c.Nil && s == 0 {
				switch ti {
				case 1, 5:
					v = reflect.ValueOf((*c04T1)(nil))
				case 4:
					v = reflect.Zero(c04TypCh)
				}
			}
			c04Register(injs[s], ti, v, c.API)
			sc[c04Types[ti]] = v
		}
		scopes = append(scopes, sc)
	}
	for s := 0; s+1 < len(injs); s++ {
		injs[s].SetParent(injs[s+1])
	}
	return injs[0], scopes, reg
}

func c04Allowed(reg *c04Reg, allowed []reflect.Value, got reflect.Value) bool {
	if len(allowed) == 0 {
		return !got.IsValid()
	}
	if !got.IsValid() {
		return false
	}
	g := reg.id(got)
	for _, a := range allowed {
		if reg.id(a) == g {
			if a.Kind() == reflect.Ptr && got.Kind() == reflect.Ptr && a.Pointer() != got.Pointer() {
				continue
			}
			return true
		}
	}
	return false
}

func c04Ids(reg *c04Reg, vs []reflect.Value) string {
	if len(vs) == 0 {
		return "unresolved"
	}
	var s []string
	for _, v := range vs {
		s = append(s, reg.id(v))
	}
	return "{" + strings.Join(s, " | ") + "}"
}

// ---- fast invoker forms, hand declared ----

type c04Fast1T1 func(c04T1) string
type c04Fast1PT1 func(*c04T1) string
type c04Fast1T2 func(c04T2) string
type c04Fast1NS func(c04NS) string
type c04Fast1Ch func(chan<- int) string
type c04Fast1I func(c04I) string
type c04Fast1J func(c04J) string
type c04Fast2IJ func(c04I, c04J) string
type c04Fast2T1I func(c04T1, c04I) string
type c04Fast2PT1NS func(*c04T1, c04NS) string

func c04rv(s string) []reflect.Value { return []reflect.Value{reflect.ValueOf(s)} }

func (f c04Fast1T1) Invoke(a []interface{}) ([]reflect.Value, error) {
	return c04rv(f(a[0].(c04T1))), nil
}
func (f c04Fast1PT1) Invoke(a []interface{}) ([]reflect.Value, error) {
	return c04rv(f(a[0].(*c04T1))), nil
}
func (f c04Fast1T2) Invoke(a []interface{}) ([]reflect.Value, error) {
	return c04rv(f(a[0].(c04T2))), nil
}
func (f c04Fast1NS) Invoke(a []interface{}) ([]reflect.Value, error) {
	return c04rv(f(a[0].(c04NS))), nil
}
func (f c04Fast1Ch) Invoke(a []interface{}) ([]reflect.Value, error) {
	return c04rv(f(a[0].(chan<- int))), nil
}
func (f c04Fast1I) Invoke(a []interface{}) ([]reflect.Value, error) {
	return c04rv(f(a[0].(c04I))), nil
}
func (f c04Fast1J) Invoke(a []interface{}) ([]reflect.Value, error) {
	return c04rv(f(a[0].(c04J))), nil
}
func (f c04Fast2IJ) Invoke(a []interface{}) ([]reflect.Value, error) {
	return c04rv(f(a[0].(c04I), a[1].(c04J))), nil
}
func (f c04Fast2T1I) Invoke(a []interface{}) ([]reflect.Value, error) {
	return c04rv(f(a[0].(c04T1), a[1].(c04I))), nil
}
func (f c04Fast2PT1NS) Invoke(a []interface{}) ([]reflect.Value, error) {
	return c04rv(f(a[0].(*c04T1), a[1].(c04NS))), nil
}

type c04Call struct {
	n    int
	args []reflect.Value
}

// c04Funcs returns, for a signature (type indexes), the plain function (reflect.MakeFunc) and,
// where one is declared, the fast-invoker form. Both record their calls into rec.
func c04Funcs(sig []int, rec *c04Call) (plain interface{}, fast interface{}) {
	in := make([]reflect.Type, len(sig))
	for i, ti := range sig {
		in[i] = c04Types[ti]
	}
	ft := reflect.FuncOf(in, []reflect.Type{reflect.TypeOf("")}, false)
	plain = reflect.MakeFunc(ft, func(args []reflect.Value) []reflect.Value {
		rec.n++
		rec.args = append([]reflect.Value(nil), args...)
		return []reflect.Value{reflect.ValueOf("result-marker")}
	}).Interface()
	note := func(vs ...interface{}) string {
		rec.n++
		rec.args = nil
		for _, v := range vs {
			rec.args = append(rec.args, reflect.ValueOf(v))
		}
		return "result-marker"
	}
	key := fmt.Sprint(sig)
	switch key {
	case "[0]":
		fast = c04Fast1T1(func(a c04T1) string { return note(a) })
	case "[1]":
		fast = c04Fast1PT1(func(a *c04T1) string { return note(a) })
	case "[2]":
		fast = c04Fast1T2(func(a c04T2) string { return note(a) })
	case "[3]":
		fast = c04Fast1NS(func(a c04NS) string { return note(a) })
	case "[4]":
		fast = c04Fast1Ch(func(a chan<- int) string { return note(a) })
	case "[5]":
		fast = c04Fast1I(func(a c04I) string { return note(a) })
	case "[6]":
		fast = c04Fast1J(func(a c04J) string { return note(a) })
	case "[5 6]":
		fast = c04Fast2IJ(func(a c04I, b c04J) string { return note(a, b) })
	case "[0 5]":
		fast = c04Fast2T1I(func(a c04T1, b c04I) string { return note(a, b) })
	case "[1 3]":
		fast = c04Fast2PT1NS(func(a *c04T1, b c04NS) string { return note(a, b) })
	}
	return
}

type c04Case struct {
	Config c04Config      `json:"config"`
	What   string         `json:"what"` // "value" | "invoke" | "apply"
	Target int            `json:"target_type,omitempty"`
	Sig    []int          `json:"signature,omitempty"`
	Fast   bool           `json:"fast_invoker,omitempty"`
	Hist   []c04HOp       `json:"history,omitempty"`
	Sealed *c04SealedCase `json:"second_universe_case,omitempty"`
}

func c04CheckValue(c c04Config, ti int) string {
	inner, scopes, reg := c04Build(c)
	got := inner.Value(c04Types[ti])
	allowed := c04Resolve(scopes, c04Types[ti])
	if !c04Allowed(reg, allowed, got) {
		return fmt.Sprintf("Value(%s) = %s, nearest-scope-first resolution allows %s", c04Names[ti], reg.id(got), c04Ids(reg, allowed))
	}
	return ""
}

func c04CheckInvoke(c c04Config, sig []int, useFast bool) (bad string, applicable bool) {
	inner, scopes, reg := c04Build(c)
	rec := &c04Call{}
	plain, fast := c04Funcs(sig, rec)
	f := plain
	if useFast {
		if fast == nil {
			return "", false
		}
		f = fast
	}
	var vals []reflect.Value
	var err error
	var pan interface{}
	func() {
		defer func() { pan = recover() }()
		vals, err = inner.Invoke(f)
	}()
	if pan != nil {
		return fmt.Sprintf("Invoke panicked: %v", pan), true
	}
	firstMissing := -1
	allowed := make([][]reflect.Value, len(sig))
	for i, ti := range sig {
		allowed[i] = c04Resolve(scopes, c04Types[ti])
		if len(allowed[i]) == 0 && firstMissing < 0 {
			firstMissing = i
		}
	}
	if firstMissing >= 0 {
		if err == nil {
			return fmt.Sprintf("parameter %d (%s) cannot be resolved but Invoke reported no error (body ran %d times)", firstMissing, c04Names[sig[firstMissing]], rec.n), true
		}
		if rec.n != 0 {
			return "handler body ran although a parameter could not be resolved", true
		}
		named := false
		for i, ti := range sig {
			if len(allowed[i]) == 0 && strings.Contains(err.Error(), c04Types[ti].String()) {
				named = true
			}
		}
		if !named {
			return fmt.Sprintf("error %q does not name an unresolvable type", err.Error()), true
		}
		return "", true
	}
	if err != nil {
		return fmt.Sprintf("all parameters resolvable but Invoke failed: %v", err), true
	}
	if rec.n != 1 {
		return fmt.Sprintf("handler body ran %d times", rec.n), true
	}
	for i := range sig {
		if i >= len(rec.args) || !c04Allowed(reg, allowed[i], rec.args[i]) {
			got := "<missing>"
			if i < len(rec.args) {
				got = reg.id(rec.args[i])
			}
			return fmt.Sprintf("argument %d (%s) = %s, resolution allows %s", i, c04Names[sig[i]], got, c04Ids(reg, allowed[i])), true
		}
	}
	if len(vals) != 1 || vals[0].Kind() != reflect.String || vals[0].String() != "result-marker" {
		return fmt.Sprintf("results not returned unchanged: %v", vals), true
	}
	return "", true
}

type c04Target struct {
	A c04T1  `inject:""`
	B *c04T1 `inject:"t"`
	C c04I   `inject:""`
	D c04NS
	e c04T2 `inject:""`
	F c04T2 `inject:""`
}

type c04TargetJ struct {
	C c04I `inject:""`
	D c04NS
	G c04J       `inject:""`
	H chan<- int `inject:""`
}

// c04Emb: a struct that embeds another struct (with fields of its own, none tagged) in front of, between and
// after its tagged fields: every tagged field gets the value of its own type, everything else stays.
type c04EmbBase struct {
	ID   int
	Note c04NS
}

type c04EmbTail struct{ Z c04T2 }

type c04Emb struct {
	c04EmbBase
	A c04T1 `inject:""`
	N c04NS
	c04EmbTail
	B *c04T1 `inject:""`
	F c04T2  `inject:""`
	M int
}

func c04CheckApplyEmbedded(c c04Config) string {
	inner, scopes, reg := c04Build(c)
	t := &c04Emb{c04EmbBase: c04EmbBase{ID: 7, Note: "keep-note"}, N: "keep-N", c04EmbTail: c04EmbTail{Z: c04T2{"keep-Z"}}, M: 9}
	var err error
	var pan interface{}
	func() {
		defer func() { pan = recover() }()
		err = inner.Apply(t)
	}()
	if pan != nil {
		return fmt.Sprintf("Apply on a struct with embedded structs panicked: %v", pan)
	}
	if t.ID != 7 || t.Note != "keep-note" || t.N != "keep-N" || t.Z.Tag != "keep-Z" || t.M != 9 {
		return fmt.Sprintf("Apply on a struct with embedded structs changed untagged fields: %+v", *t)
	}
	type field struct {
		name string
		ti   int
		v    reflect.Value
	}
	fields := []field{{"A", 0, reflect.ValueOf(t.A)}, {"B", 1, reflect.ValueOf(t.B)}, {"F", 2, reflect.ValueOf(t.F)}}
	missing := false
	for _, f := range fields {
		if len(c04Resolve(scopes, c04Types[f.ti])) == 0 {
			missing = true
		}
	}
	if missing {
		if err == nil {
			return "a tagged field of a struct with embedded structs cannot be resolved but Apply reported no error"
		}
		return ""
	}
	if err != nil {
		return fmt.Sprintf("all tagged fields resolvable but Apply on a struct with embedded structs failed: %v", err)
	}
	for _, f := range fields {
		if allowed := c04Resolve(scopes, c04Types[f.ti]); !c04Allowed(reg, allowed, f.v) {
			return fmt.Sprintf("struct with embedded structs: field %s = %s, resolution allows %s", f.name, reg.id(f.v), c04Ids(reg, allowed))
		}
	}
	return ""
}

func c04CheckApply(c c04Config, withJ bool) string {
	inner, scopes, reg := c04Build(c)
	type field struct {
		name string
		ti   int
		get  func() reflect.Value
	}
	var target interface{}
	var fields []field
	var untouched func() string
	if !withJ {
		t := &c04Target{D: "keep-D", e: c04T2{"keep-e"}}
		target = t
		fields = []field{{"A", 0, func() reflect.Value { return reflect.ValueOf(t.A) }}, {"B", 1, func() reflect.Value { return reflect.ValueOf(t.B) }},
			{"C", 5, func() reflect.Value { return reflect.ValueOf(&t.C).Elem() }}, {"F", 2, func() reflect.Value { return reflect.ValueOf(t.F) }}}
		untouched = func() string {
			if t.D != "keep-D" || t.e.Tag != "keep-e" {
				return fmt.Sprintf("untagged/unexported fields were modified: D=%q e=%q", t.D, t.e.Tag)
			}
			return ""
		}
	} else {
		t := &c04TargetJ{D: "keep-D"}
		target = t
		fields = []field{{"C", 5, func() reflect.Value { return reflect.ValueOf(&t.C).Elem() }}, {"G", 6, func() reflect.Value { return reflect.ValueOf(&t.G).Elem() }},
			{"H", 4, func() reflect.Value { return reflect.ValueOf(t.H) }}}
		untouched = func() string {
			if t.D != "keep-D" {
				return "untagged field D was modified"
			}
			return ""
		}
	}
	var err error
	var pan interface{}
	// a struct passed by value has no settable field: Apply must leave it alone, report nothing, and
	// not let that call influence a later Apply with a pointer to the same struct type
	func() {
		defer func() { pan = recover() }()
		if withJ {
			err = inner.Apply(*(target.(*c04TargetJ)))
		} else {
			err = inner.Apply(*(target.(*c04Target)))
		}
	}()
	if pan != nil || err != nil {
		return fmt.Sprintf("Apply on a struct passed by value: panic %v, error %v (expected a no-op)", pan, err)
	}
	func() {
		defer func() { pan = recover() }()
		// the struct is reached through one pointer or (for every other configuration) through two:
		// Apply follows pointers down to the struct
		if c.Masks[0]%2 == 1 {
			if withJ {
				pp := target.(*c04TargetJ)
				err = inner.Apply(&pp)
			} else {
				pp := target.(*c04Target)
				err = inner.Apply(&pp)
			}
		} else {
			err = inner.Apply(target)
		}
	}()
	if pan != nil {
		return fmt.Sprintf("Apply panicked: %v", pan)
	}
	missing := ""
	for _, f := range fields {
		if len(c04Resolve(scopes, c04Types[f.ti])) == 0 {
			missing = c04Types[f.ti].String()
			break
		}
	}
	if missing != "" {
		if err == nil {
			return "a tagged field cannot be resolved but Apply reported no error"
		}
		ok := false
		for _, f := range fields {
			if len(c04Resolve(scopes, c04Types[f.ti])) == 0 && strings.Contains(err.Error(), c04Types[f.ti].String()) {
				ok = true
			}
		}
		if !ok {
			return fmt.Sprintf("error %q does not name an unresolvable type", err)
		}
		return untouched()
	}
	if err != nil {
		return fmt.Sprintf("all tagged fields resolvable but Apply failed: %v", err)
	}
	for _, f := range fields {
		allowed := c04Resolve(scopes, c04Types[f.ti])
		got := f.get()
		if got.Kind() == reflect.Interface && got.IsNil() {
			return fmt.Sprintf("field %s left nil", f.name)
		}
		if !c04Allowed(reg, allowed, got) {
			return fmt.Sprintf("field %s = %s, resolution allows %s", f.name, reg.id(got), c04Ids(reg, allowed))
		}
	}
	return untouched()
}

type c04HOp struct {
	Kind  string `json:"op"` // reg | value | invoke
	Scope int    `json:"scope,omitempty"`
	Type  int    `json:"type"`
}

func (o c04HOp) String() string {
	if o.Kind == "reg" {
		return fmt.Sprintf("Map(scope%d,%s)", o.Scope, c04Names[o.Type])
	}
	if o.Kind == "reg-shared" {
		return fmt.Sprintf("MapTo(scope%d, the *T1 registered there, I)", o.Scope)
	}
	if o.Kind == "parent" {
		return fmt.Sprintf("SetParent(scope%d,%s)", o.Scope, []string{"scope0", "scope1", "scope2", "nil", "wrapped(scope1)"}[o.Type])
	}
	return fmt.Sprintf("%s(%s)", o.Kind, c04Names[o.Type])
}

func c04HistoryOps() []c04HOp {
	var ops []c04HOp
	for sc := 0; sc < 3; sc++ {
		for _, ti := range []int{1, 2, 5, 0} {
			ops = append(ops, c04HOp{Kind: "reg", Scope: sc, Type: ti})
		}
	}
	// the pointer currently registered under *T1 in the scope is registered under the key I as well (one
	// instance under two types: re-registering one type later is no business of the other)
	ops = append(ops, c04HOp{Kind: "reg-shared", Scope: 0, Type: 5}, c04HOp{Kind: "reg-shared", Scope: 1, Type: 5})
	// a value under an interface key that implements I and J (MapTo): it answers for both from then on, also
	// after a lookup of I or J in that scope had found nothing
	ops = append(ops, c04HOp{Kind: "reg", Scope: 0, Type: 7}, c04HOp{Kind: "reg", Scope: 1, Type: 7})
	// the method-less interface: as a key of its own in the outer scope, and asked for (any registration of the
	// nearest scope that has one answers before an outer scope is consulted)
	ops = append(ops, c04HOp{Kind: "reg", Scope: 1, Type: 8}, c04HOp{Kind: "value", Type: 8}, c04HOp{Kind: "invoke", Type: 8})
	for _, ti := range []int{5, 1, 2} {
		ops = append(ops, c04HOp{Kind: "value", Type: ti})
	}
	ops = append(ops, c04HOp{Kind: "invoke", Type: 5}, c04HOp{Kind: "invoke", Type: 6})
	// invocations that resolve concrete types (what an invocation fetched from an outer scope is no registration
	// of the scope it ran in)
	ops = append(ops, c04HOp{Kind: "invoke", Type: 1}, c04HOp{Kind: "invoke", Type: 2})
	// SetParent: scope, and the new parent in Type (0..2 = that injector, 3 = none, 4 = injector 1
	// behind a wrapper type that is not the plain injector)
	ops = append(ops, c04HOp{Kind: "parent", Scope: 0, Type: 1}, c04HOp{Kind: "parent", Scope: 0, Type: 2}, c04HOp{Kind: "parent", Scope: 0, Type: 3},
		c04HOp{Kind: "parent", Scope: 1, Type: 2}, c04HOp{Kind: "parent", Scope: 0, Type: 4})
	return ops
}

// c04Wrapped is an Injector that is not the package's own type.
type c04Wrapped struct{ inject.Injector }

// c04RunHistory executes ops on three live injectors (initially 0 -> 1, 2 detached), comparing every
// resolution with the model.
func c04RunHistory(ops []c04HOp) (bad string, at int) {
	reg := &c04Reg{chTags: map[uintptr]string{}}
	injs := []inject.Injector{inject.New(), inject.New(), inject.New()}
	injs[0].SetParent(injs[1])
	scopes := []c04Scope{{}, {}, {}}
	parent := []int{1, -1, -1}
	chain := func() []c04Scope {
		var out []c04Scope
		for s, n := 0, 0; s >= 0 && n < 4; s, n = parent[s], n+1 {
			out = append(out, scopes[s])
		}
		return out
	}
	for n, op := range ops {
		switch op.Kind {
		case "reg":
			v := reg.mkValue(op.Type, fmt.Sprintf("s%d#%d", op.Scope, n), n)
			c04Register(injs[op.Scope], op.Type, v, "Map")
			scopes[op.Scope][c04Types[op.Type]] = v
		case "reg-shared":
			v, ok := scopes[op.Scope][c04TypPT1]
			if !ok {
				v = reg.mkValue(1, fmt.Sprintf("s%d#%d", op.Scope, n), n)
			}
			injs[op.Scope].MapTo(v.Interface(), (*c04I)(nil))
			scopes[op.Scope][c04TypI] = v
		case "parent":
			switch op.Type {
			case 3:
				injs[op.Scope].SetParent(nil)
				parent[op.Scope] = -1
			case 4:
				injs[op.Scope].SetParent(c04Wrapped{injs[1]})
				parent[op.Scope] = 1
			default:
				injs[op.Scope].SetParent(injs[op.Type])
				parent[op.Scope] = op.Type
			}
		case "value":
			got := injs[0].Value(c04Types[op.Type])
			allowed := c04Resolve(chain(), c04Types[op.Type])
			if !c04Allowed(reg, allowed, got) {
				return fmt.Sprintf("step %d: Value(%s) = %s, resolution at this point allows %s", n+1, c04Names[op.Type], reg.id(got), c04Ids(reg, allowed)), n
			}
		case "invoke":
			rec := &c04Call{}
			plain, _ := c04Funcs([]int{op.Type}, rec)
			_, err := injs[0].Invoke(plain)
			allowed := c04Resolve(chain(), c04Types[op.Type])
			if len(allowed) == 0 {
				if err == nil || rec.n != 0 {
					return fmt.Sprintf("step %d: Invoke(func(%s)) must fail without running the body (err=%v, ran %d)", n+1, c04Names[op.Type], err, rec.n), n
				}
				continue
			}
			if err != nil || rec.n != 1 || !c04Allowed(reg, allowed, rec.args[0]) {
				got := "<none>"
				if len(rec.args) > 0 {
					got = reg.id(rec.args[0])
				}
				return fmt.Sprintf("step %d: Invoke(func(%s)) received %s (err=%v), resolution at this point allows %s", n+1, c04Names[op.Type], got, err, c04Ids(reg, allowed)), n
			}
		}
	}
	return "", -1
}

// c04Repeated: a long-lived scope answers the fortieth lookup as it answered the first. Three live injectors
// (request scope -> application scope -> an outer one); for every placement of one registration that answers
// for I (an implementor / the exact key, in each scope) and every kind of resolution, forty repetitions.
func c04Repeated(l *core.Local) {
	for place := 0; place < 3; place++ {
		for _, exact := range []bool{false, true} {
			for _, how := range []string{"Value", "Invoke", "Invoke(fast)", "Apply"} {
				reg := &c04Reg{chTags: map[uintptr]string{}}
				injs := []inject.Injector{inject.New(), inject.New(), inject.New()}
				injs[0].SetParent(injs[1])
				injs[1].SetParent(injs[2])
				v := reg.mkValue(1, fmt.Sprintf("s%d", place), 0) // a *T1, which implements I
				if exact {
					injs[place].MapTo(v.Interface(), (*c04I)(nil))
				} else {
					injs[place].Map(v.Interface())
				}
				for rep := 1; rep <= 40; rep++ {
					l.Evals++
					l.Transitions++
					var got reflect.Value
					var err error
					switch how {
					case "Value":
						got = injs[0].Value(c04TypI)
					case "Invoke", "Invoke(fast)":
						rec := &c04Call{}
						plain, fast := c04Funcs([]int{5}, rec)
						fn := plain
						if how == "Invoke(fast)" && fast != nil {
							fn = fast
						}
						_, err = injs[0].Invoke(fn)
						if len(rec.args) == 1 {
							got = rec.args[0]
						}
					case "Apply":
						t := &c04TargetJOnlyI{}
						err = injs[0].Apply(t)
						got = reflect.ValueOf(&t.C).Elem()
					}
					if err != nil || !got.IsValid() || reg.id(got) != reg.id(v) {
						l.Class("mismatch")
						l.Violate("repeated-lookup/"+how, fmt.Sprintf("the %d. %s of I in a request scope whose %s (exact key: %v) holds the only answer: got %s, error %v, expected %s", rep, how, []string{"own scope", "application scope", "outermost scope"}[place], exact, reg.id(got), err, reg.id(v)),
							c04Case{What: "repeated", Sig: []int{place, rep}, Fast: exact, Hist: []c04HOp{{Kind: how}}})
						break
					}
				}
				l.Traces++
				l.States++
				l.NonTrivial++
				l.Class("repeated-lookups")
			}
		}
	}
}

type c04TargetJOnlyI struct {
	C c04I `inject:""`
}

func c04Histories(r *core.Run) {
	ops := c04HistoryOps()
	depth := 4
	if r.Thorough() {
		depth = 5
	}
	r.Bounds["history_depth"] = depth
	r.Bounds["history_ops"] = len(ops)
	total := 1
	for i := 0; i < depth; i++ {
		total *= len(ops)
	}
	r.Parallel(func(w, nw int, l *core.Local) {
		for c := w; c < total; c += nw {
			if (c/nw)%256 == 0 && r.Expired() {
				return
			}
			hist := make([]c04HOp, depth)
			x := c
			resolves, regs := 0, 0
			for i := depth - 1; i >= 0; i-- {
				hist[i] = ops[x%len(ops)]
				x /= len(ops)
				if hist[i].Kind == "reg" || hist[i].Kind == "parent" || hist[i].Kind == "reg-shared" {
					regs++
				} else {
					resolves++
				}
			}
			if resolves == 0 {
				continue
			}
			l.States++
			l.Evals++
			l.Transitions += int64(depth)
			l.Traces++
			if regs >= 2 && resolves >= 2 {
				l.NonTrivial++
			}
			bad, at := c04RunHistory(hist)
			if bad != "" {
				l.Class("mismatch")
				l.Violate("history/"+hist[at].String(), bad+fmt.Sprintf(" [history %v]", hist), c04Case{What: "history", Hist: hist[:at+1]})
			} else {
				l.Class("history")
				if c%50021 == 0 {
					l.Sample(fmt.Sprint(hist))
				}
			}
		}
	})
}

func c04Signatures() [][]int {
	out := [][]int{{}}
	for a := range c04Types {
		out = append(out, []int{a})
	}
	for a := range c04Types {
		for b := range c04Types {
			out = append(out, []int{a, b})
		}
	}
	return out
}

func c04Configs(scopes int, step int) []c04Config {
	var out []c04Config
	n := 1
	for i := 0; i < scopes; i++ {
		n *= 128
	}
	for c := 0; c < n; c += step {
		masks := make([]int, scopes)
		x := c
		for s := range masks {
			masks[s] = x % 128
			x /= 128
		}
		out = append(out, c04Config{Scopes: scopes, Masks: masks, API: "Map"})
	}
	return out
}

// ---- flame level ----

type c04ReqVal struct{ Tag string }

func c04Flame(l *core.Local) {
	f := flamego.NewWithLogger(io.Discard)
	type obs struct {
		h2, h3   string
		ctxSame  bool
		rwWrites bool
		reqSame  bool
		loggerOK bool
		teapot   bool
	}
	var o obs
	var curReq *http.Request
	var curCtx flamego.Context
	f.Map(&c04ReqVal{"app"})
	f.Map(c04NS("app-ns"))
	f.Use(func(c flamego.Context) {
		curCtx = c
		if c.Request().Header.Get("X-Map") != "" {
			c.Map(&c04ReqVal{"request:" + c.Request().Header.Get("X-Map")})
		}
	})
	f.Use(func(v *c04ReqVal) { o.h2 = v.Tag })
	f.Use(flamego.LoggerInvoker(func(c flamego.Context, lg *log.Logger) { o.loggerOK = lg != nil && c == curCtx }))
	f.Use(func(w http.ResponseWriter, r *http.Request) { // auto-wrapped httpHandlerFuncInvoker
		o.reqSame = r == curReq
		w.Header().Set("X-Seen", "1")
	})
	f.Use(http.HandlerFunc(func(w http.ResponseWriter, r *http.Request) { o.reqSame = o.reqSame && r == curReq }))
	f.Get("/t", func(c flamego.Context, v *c04ReqVal, ns c04NS) {
		o.h3 = v.Tag + "/" + string(ns)
		o.ctxSame = c == curCtx
	}, func() (int, string) { o.teapot = true; return 418, "teapot" })
	serve := func(mapTag string) (obs, *c01Spy) {
		o = obs{}
		req := newReq("GET", "/t")
		if mapTag != "" {
			req.Header.Set("X-Map", mapTag)
		}
		curReq = req
		spy := &c01Spy{hdr: http.Header{}}
		f.ServeHTTP(spy, req)
		return o, spy
	}
	seq := []string{"", "A", "", "B", "A", ""}
	for i, tag := range seq {
		l.Evals++
		l.Transitions++
		l.Traces++
		l.NonTrivial++
		got, spy := serve(tag)
		want := "app"
		if tag != "" {
			want = "request:" + tag
		}
		desc := ""
		switch {
		case got.h2 != want || got.h3 != want+"/app-ns":
			desc = fmt.Sprintf("request %d (maps %q): later handlers saw %q and %q, expected %q (request scope first, visible to this request only)", i, tag, got.h2, got.h3, want)
		case !got.ctxSame || !got.reqSame || !got.loggerOK:
			desc = fmt.Sprintf("request %d: built-in wrappers received foreign context/request/logger: %+v", i, got)
		case !got.teapot || spy.code != 418 || spy.body.String() != "teapot" || spy.hdr.Get("X-Seen") != "1":
			desc = fmt.Sprintf("request %d: wrapped handlers did not run once with their results unchanged: status %d body %q", i, spy.code, spy.body.String())
		}
		if desc != "" {
			l.Violate("flame-scope", desc, c04Case{What: "flame"})
		} else {
			l.Class("flame:request-scope-isolated")
		}
	}
}

// c04FlameRebind: an earlier handler re-registers the services the context maps at creation
// (http.ResponseWriter, *http.Request); later handlers of every shape - including the ones that are
// wrapped automatically into fast invokers - must receive the later registration.
type c04TagWriter struct {
	http.ResponseWriter
	tag string
}

// c04FlameResults: "its results come back unchanged, identically for plain functions and for fast-invoker
// wrapped ones (including the built-in automatic wrapping)": handlers of every signature the framework may
// wrap on its own, registered on a Flame whose ReturnHandler records what it is handed; the record must be
// what calling the function directly gives (number of results, static type and value of each).
func c04FlameResults(l *core.Local) {
	boom := errors.New("boom")
	handlers := map[string]interface{}{
		"func(Context) error=nil":           func(c flamego.Context) error { return nil },
		"func(Context) error=boom":          func(c flamego.Context) error { return boom },
		"func() error=nil":                  func() error { return nil },
		"func() error=boom":                 func() error { return boom },
		"func() (int, string)":              func() (int, string) { return 418, "tea" },
		"func(Context) (int, string)":       func(c flamego.Context) (int, string) { return 418, "tea" },
		"func(Context) (string, error)=nil": func(c flamego.Context) (string, error) { return "s", nil },
		"func() string":                     func() string { return "s" },
		"func(Context) string":              func(c flamego.Context) string { return "s" },
		"func(Context) []byte":              func(c flamego.Context) []byte { return []byte("b") },
		"func(Context) *c04T1=nil":          func(c flamego.Context) *c04T1 { return nil },
		"func(Context) c04I=nil":            func(c flamego.Context) c04I { return nil },
		"func(Context) (int, error)=nil":    func(c flamego.Context) (int, error) { return 204, nil },
		"func(Context)":                     func(c flamego.Context) {},
		"func(ResponseWriter, *Request)":    func(w http.ResponseWriter, r *http.Request) {},
	}
	describe := func(vals []reflect.Value) string {
		var parts []string
		for _, v := range vals {
			if !v.IsValid() {
				parts = append(parts, "<zero reflect.Value>")
				continue
			}
			parts = append(parts, fmt.Sprintf("%s=%v", v.Type(), v.Interface()))
		}
		return fmt.Sprintf("%d results [%s]", len(vals), strings.Join(parts, "; "))
	}
	names := make([]string, 0, len(handlers))
	for n := range handlers {
		names = append(names, n)
	}
	sort.Strings(names)
	for _, style := range []string{"route", "use", "action"} {
		for _, name := range names {
			h := handlers[name]
			f := flamego.NewWithLogger(io.Discard)
			got := "ReturnHandler not called"
			f.Map(flamego.ReturnHandler(func(c flamego.Context, vals []reflect.Value) { got = describe(vals) }))
			switch style {
			case "route":
				f.Get("/t", h)
			case "use":
				f.Use(h)
				f.Get("/t", func() {})
			case "action":
				f.Get("/t", func() {})
				f.Action(h)
			}
			var ctx flamego.Context
			f.Before(func(http.ResponseWriter, *http.Request) bool { return false })
			var pan interface{}
			func() {
				defer func() { pan = recover() }()
				f.ServeHTTP(&c01Spy{hdr: http.Header{}}, newReq("GET", "/t"))
			}()
			_ = ctx
			// the same function called directly, with zero values for its parameters
			ft := reflect.TypeOf(h)
			args := make([]reflect.Value, ft.NumIn())
			for i := range args {
				args[i] = reflect.Zero(ft.In(i))
			}
			want := "ReturnHandler not called"
			if ft.NumOut() > 0 {
				want = describe(reflect.ValueOf(h).Call(args))
			}
			l.Evals++
			l.Transitions++
			l.Traces++
			l.NonTrivial++
			l.States++
			if pan != nil || got != want {
				l.Class("mismatch")
				l.Violate("flame-results/"+style, fmt.Sprintf("handler %s registered as %s: the ReturnHandler was handed %s (panic %v), calling the function gives %s", name, style, got, pan, want), c04Case{What: "flame-results"})
			} else {
				l.Class("flame:results-unchanged")
			}
		}
	}
}

func c04FlameRebind(l *core.Local) {
	for _, which := range []string{"writer", "request", "both"} {
		f := flamego.NewWithLogger(io.Discard)
		var seen []string
		var newReq2 *http.Request
		f.Use(func(c flamego.Context, w http.ResponseWriter, r *http.Request) {
			if which == "writer" || which == "both" {
				c.MapTo(&c04TagWriter{ResponseWriter: w, tag: "rebound"}, (*http.ResponseWriter)(nil))
			}
			if which == "request" || which == "both" {
				newReq2 = r.Clone(r.Context())
				newReq2.Header.Set("X-Rebound", "1")
				c.Map(newReq2)
			}
		})
		note := func(shape string, w http.ResponseWriter, r *http.Request) {
			_, wr := w.(*c04TagWriter)
			seen = append(seen, fmt.Sprintf("%s:writer-rebound=%v,request-rebound=%v", shape, wr, r.Header.Get("X-Rebound") == "1"))
		}
		f.Use(func(w http.ResponseWriter, r *http.Request) { note("func(w,r)", w, r) })
		f.Use(http.HandlerFunc(func(w http.ResponseWriter, r *http.Request) { note("http.HandlerFunc", w, r) }))
		f.Use(func(c flamego.Context, w http.ResponseWriter, r *http.Request) { note("func(c,w,r)", w, r) })
		f.Get("/t", func(w http.ResponseWriter, r *http.Request) string { note("returning", w, r); return "" })
		f.ServeHTTP(&c01Spy{hdr: http.Header{}}, newReq("GET", "/t"))
		wantW, wantR := which != "request", which != "writer"
		for _, s := range seen {
			l.Evals++
			l.Transitions++
			l.Traces++
			l.NonTrivial++
			want := fmt.Sprintf("writer-rebound=%v,request-rebound=%v", wantW, wantR)
			if !strings.HasSuffix(s, want) {
				l.Violate("flame-rebind/"+strings.SplitN(s, ":", 2)[0], fmt.Sprintf("after an earlier handler re-registered %s in the request scope, a later handler saw %s (expected %s)", which, s, want), c04Case{What: "flame-rebind"})
			} else {
				l.Class("flame:re-registered-service-reaches-later-handlers")
			}
		}
		if len(seen) != 4 {
			l.Violate("flame-rebind/handlers-ran", fmt.Sprintf("%d of 4 probe handlers ran", len(seen)), c04Case{What: "flame-rebind"})
		}
	}
}

func c04Run(r *core.Run) {
	r.SetBudget(75 * time.Second)
	if r.Thorough() {
		r.SetBudget(10 * time.Minute)
	}
	r.Rule = "engine E: every presence assignment of 7 types (struct, pointer, second struct, named string, send-only channel via Set, interface I with two implementors, interface J) to 1..3 nested injectors x every target type for Value(); every signature of arity 0..2 x every 1- and 2-scope assignment (thorough: and a grid of the 3-scope ones) for Invoke() through reflect.MakeFunc functions and hand-declared FastInvoker types; Apply() on two struct targets (by value, through one pointer, through two); registration API {Map/MapTo, Set} x {once, re-registered} x {values, typed nil pointer / nil channel in the innermost scope}; a second universe of interfaces and implementors with unexported methods only (sealed interfaces, pointer receivers, a func type, an interface implied by another) over 1-2 scopes; oracle = reference resolver (exact in nearest scope, else the SET of same-scope implementors, else outer); non-trivial = resolution that needs an outer scope or an implementor, or fails"
	r.Assumptions = []string{"reflect.Type.Implements is trusted for the 'implements' relation", "which of several same-scope implementors is picked is free (map order): membership in the set is checked"}
	sigs := c04Signatures()
	r.Bounds["types"] = c04Names
	r.Bounds["signatures"] = len(sigs)
	// phase A: Value()
	var cfgs []c04Config
	cfgs = append(cfgs, c04Configs(1, 1)...)
	cfgs = append(cfgs, c04Configs(2, 1)...)
	if r.Thorough() {
		cfgs = append(cfgs, c04Configs(3, 1)...)
	} else {
		cfgs = append(cfgs, c04Configs(3, 37)...)
	}
	r.Bounds["value_configs"] = len(cfgs)
	apis := []struct {
		api   string
		twice bool
		nilv  bool
	}{{"Map", false, false}, {"Set", false, false}, {"Map", true, false}, {"Set", true, false}, {"Map", false, true}, {"Set", true, true}}
	const c04NilBits = 1<<1 | 1<<4 | 1<<5
	r.Parallel(func(w, nw int, l *core.Local) {
		for ci := w; ci < len(cfgs); ci += nw {
			if (ci/nw)%32 == 0 && r.Expired() {
				return
			}
			for ai, a := range apis {
				if ai > 0 && cfgs[ci].Scopes == 3 && ci%5 != 0 {
					continue
				}
				c := cfgs[ci]
				c.API, c.Twice, c.Nil = a.api, a.twice, a.nilv
				if c.Nil && c.Masks[0]&c04NilBits == 0 {
					continue
				}
				l.States++
				for ti := range c04Types {
					l.Evals++
					l.Transitions++
					l.Traces++
					bad := c04CheckValue(c, ti)
					exactInner := c.Masks[0]&(1<<ti) != 0
					if !exactInner {
						l.NonTrivial++
					}
					if bad != "" {
						l.Class("mismatch")
						l.Violate("value/"+c04Names[ti]+fmt.Sprintf("/scopes=%d", c.Scopes), bad+" ["+c.String()+"]", c04Case{Config: c, What: "value", Target: ti})
					} else if exactInner {
						l.Class("value:exact-nearest")
					} else {
						l.Class("value:outer-or-implementor-or-unresolved")
					}
				}
			}
		}
	})
	// phase B: Invoke(), plain and fast
	var icfgs []c04Config
	icfgs = append(icfgs, c04Configs(1, 1)...)
	if r.Thorough() {
		icfgs = append(icfgs, c04Configs(2, 1)...)
		icfgs = append(icfgs, c04Configs(3, 101)...) // a grid of the three-scope assignments
	} else {
		icfgs = append(icfgs, c04Configs(2, 13)...)
	}
	r.Bounds["invoke_configs"] = len(icfgs)
	r.Parallel(func(w, nw int, l *core.Local) {
		for ci := w; ci < len(icfgs); ci += nw {
			if (ci/nw)%4 == 0 && r.Expired() {
				return
			}
			for _, nilv := range []bool{false, true} {
				c := icfgs[ci]
				c.Nil = nilv
				if nilv && c.Masks[0]&c04NilBits == 0 {
					continue
				}
				l.States++
				for si, sig := range sigs {
					for _, fast := range []bool{false, true} {
						bad, ok := c04CheckInvoke(c, sig, fast)
						if !ok {
							continue
						}
						l.Evals++
						l.Transitions++
						l.Traces++
						if len(sig) > 0 {
							l.NonTrivial++
						}
						if bad != "" {
							l.Class("mismatch")
							l.Violate(fmt.Sprintf("invoke/fast=%v/arity=%d", fast, len(sig)), bad+fmt.Sprintf(" [signature %v, %s]", sig, c.String()), c04Case{Config: c, What: "invoke", Sig: sig, Fast: fast})
						} else {
							l.Class(fmt.Sprintf("invoke:fast=%v", fast))
							if (ci+si)%3001 == 0 {
								l.Sample(map[string]interface{}{"config": c.String(), "signature": sig, "fast": fast})
							}
						}
					}
				}
				l.Evals++
				l.Transitions++
				l.Traces++
				if bad := c04CheckApplyEmbedded(c); bad != "" {
					l.Class("mismatch")
					l.Violate("apply/embedded-structs", bad+" ["+c.String()+"]", c04Case{Config: c, What: "apply-embedded"})
				} else {
					l.Class("apply")
				}
				for _, withJ := range []bool{false, true} {
					l.Evals++
					l.Transitions++
					l.Traces++
					if bad := c04CheckApply(c, withJ); bad != "" {
						l.Class("mismatch")
						l.Violate(fmt.Sprintf("apply/withJ=%v", withJ), bad+" ["+c.String()+"]", c04Case{Config: c, What: "apply", Fast: withJ})
					} else {
						l.Class("apply")
					}
				}
			}
		}
	})
	// phase C: histories on live injectors - registrations and resolutions interleaved (a resolution
	// must not change what later registrations mean)
	{
		l := core.NewLocal()
		c04Repeated(l)
		r.Bounds["repeated_lookups"] = "I resolved 40 times through Value / Invoke (plain, fast) / Apply on one chain of three scopes, for every placement of the one registration that answers"
		r.Merge(l)
	}
	c04Histories(r)
	c04SealedPhase(r)
	fl := core.NewLocal()
	c04Flame(fl)
	c04FlameRebind(fl)
	c04FlameResults(fl)
	fl.States++
	r.Merge(fl)
}

func c04Replay(raw json.RawMessage) (bool, string) {
	var c c04Case
	if err := json.Unmarshal(raw, &c); err != nil {
		return false, err.Error()
	}
	switch c.What {
	case "assignable:recv-chan", "assignable:named-slice":
		b := c04Assignable(strings.TrimPrefix(c.What, "assignable:"), c.Fast, c.Target == 1)
		return b != "", b
	case "many":
		api := "Map"
		if c.Fast {
			api = "Set"
		}
		b := c04Many(c.Target, api)
		return b != "", b
	case "variadic":
		b := c04Variadic(c.Target == 1, c.Fast)
		return b != "", b
	case "sealed":
		for i := 0; i < 50; i++ {
			if b := c04SealedCheck(*c.Sealed); b != "" {
				return true, b
			}
		}
		return false, ""
	case "value":
		// implementor choice is map-order dependent: try several times
		for i := 0; i < 50; i++ {
			if b := c04CheckValue(c.Config, c.Target); b != "" {
				return true, b
			}
		}
		return false, ""
	case "invoke":
		for i := 0; i < 50; i++ {
			if b, _ := c04CheckInvoke(c.Config, c.Sig, c.Fast); b != "" {
				return true, b
			}
		}
		return false, ""
	case "repeated":
		l := core.NewLocal()
		c04Repeated(l)
		if l.Classes["mismatch"] > 0 {
			return true, "a repeated lookup is answered differently (see the check's output)"
		}
		return false, ""
	case "apply-embedded":
		if b := c04CheckApplyEmbedded(c.Config); b != "" {
			return true, b
		}
		return false, ""
	case "apply":
		for i := 0; i < 50; i++ {
			if b := c04CheckApply(c.Config, c.Fast); b != "" {
				return true, b
			}
		}
		return false, ""
	case "history":
		for i := 0; i < 50; i++ {
			if b, _ := c04RunHistory(c.Hist); b != "" {
				return true, b
			}
		}
		return false, ""
	case "flame-results":
		l := core.NewLocal()
		c04FlameResults(l)
		return l.Classes["mismatch"] > 0, "results of handlers the framework wraps on its own differ from what the function returns"
	case "flame-rebind":
		l := core.NewLocal()
		c04FlameRebind(l)
		return l.Classes["flame:re-registered-service-reaches-later-handlers"] != 12, "re-registered request services must reach later handlers of every shape"
	case "flame":
		l := core.NewLocal()
		c04Flame(l)
		return l.Classes["flame:request-scope-isolated"] != 6, "flame-level scope isolation"
	}
	return false, "unknown case"
}

func init() {
	core.Register(&core.Check{ID: "C04", Run: c04Run, Replay: c04Replay})
}
