package checks

import (
	"encoding/json"
	"fmt"
	"io"
	"net/http"
	"os"
	"path"
	"path/filepath"
	"strings"
	"time"

	"github.com/flamego/flamego"
	"github.com/flamego/flamego/verifharness/core"
)

// ---- C16: Static serves only files inside directory and prefix (engine E) ----

// fixture: files with unique tokens. Keys are paths below root/pub ("/" = the directory itself).
var c16Files = map[string]string{
	"/index.html":   "TOKEN-top-index",
	"/f.txt":        "TOKEN-f",
	"/d/index.html": "TOKEN-d-index",
	"/d/g.txt":      "TOKEN-d-g",
	"/e/x.txt":      "TOKEN-e-x",
	// the same name, size and modification time as /d/g.txt, other content
	"/e/g.txt": "TOKEN-e-g",
	// a regular file without content (it is the index of the root directory where Index is g.txt)
	"/g.txt": "",
}
var c16Dirs = []string{"/", "/d", "/e", "/h", "/h/index.html", "/st"}

// (f.txt outside has the name, size and modification time of /f.txt inside)
var c16Outside = map[string]string{"secret.txt": "TOKEN-OUTSIDE-secret", "pubx": "TOKEN-OUTSIDE-pubx", "f.txt": "TOKEN-O"}

// c16ModTime: the modification time given to every file of the fixture, as an HTTP date.
const c16ModTime = "Thu, 02 Jan 2020 03:04:05 GMT"

// c16DirectETag: the ETag the file holding this content carries when it is requested by its own path on w.
func c16DirectETag(w *c16World, o c16Opts, body string) string {
	for key, content := range c16Files {
		if content != body {
			continue
		}
		pre := strings.Trim(o.Prefix, "/")
		if pre != "" {
			pre = "/" + pre
		}
		marker := w.marker
		spy, pan := c16Serve(w, "GET", pre+key, "")
		w.marker = marker
		if pan != nil || spy.code != 200 {
			return ""
		}
		return spy.hdr.Get("ETag")
	}
	return ""
}

func c16Fixture() (root string, cleanup func()) {
	root = filepath.Join(core.VerifDir, ".work", "c16", fmt.Sprint(os.Getpid()))
	_ = os.RemoveAll(root)
	must := func(err error) {
		if err != nil {
			panic(err)
		}
	}
	must(os.MkdirAll(filepath.Join(root, "pub"), 0o755))
	for _, d := range c16Dirs {
		must(os.MkdirAll(filepath.Join(root, "pub", d), 0o755))
	}
	mt := time.Date(2020, 1, 2, 3, 4, 5, 0, time.UTC)
	for p, c := range c16Files {
		fp := filepath.Join(root, "pub", p)
		must(os.WriteFile(fp, []byte(c), 0o644))
		must(os.Chtimes(fp, mt, mt))
	}
	for p, c := range c16Outside {
		must(os.WriteFile(filepath.Join(root, p), []byte(c), 0o644))
		must(os.Chtimes(filepath.Join(root, p), mt, mt))
	}
	return root, func() { _ = os.RemoveAll(root) }
}

type c16Opts struct {
	Prefix  string `json:"prefix"`
	Index   string `json:"index"`
	ETag    bool   `json:"set_etag"`
	Expires bool   `json:"expires"`
	Cache   bool   `json:"cache_control"`
	IOFS    bool   `json:"filesystem_is_io_fs,omitempty"`               // StaticOptions.FileSystem = http.FS(os.DirFS(dir)) instead of Directory
	DirFS   bool   `json:"filesystem_and_directory_both_set,omitempty"` // FileSystem = http.Dir(dir) AND Directory = the parent that holds the outside files: the file system is what counts
	Missing bool   `json:"directory_does_not_exist,omitempty"`          // Directory names nothing on disk: there is nothing to serve, whatever is asked
	Logging bool   `json:"enable_logging,omitempty"`                    // StaticOptions.EnableLogging: a log line per served file, nothing else changes
}

type c16Expect struct {
	Kind     string // pass | file | redirect
	Body     string
	Location string
}

func c16IsDir(p string) bool {
	for _, d := range c16Dirs {
		if d == p {
			return true
		}
	}
	return false
}

// c16Model is the resolution rule written from the statement (validated at design time).
func c16Model(method, reqPath string, o c16Opts) c16Expect {
	if method != "GET" && method != "HEAD" || o.Missing {
		return c16Expect{Kind: "pass"}
	}
	rem := reqPath
	if o.Prefix != "" {
		pfx := "/" + strings.Trim(o.Prefix, "/")
		if !strings.HasPrefix(reqPath, pfx) {
			return c16Expect{Kind: "pass"}
		}
		rem = reqPath[len(pfx):]
		if rem != "" && rem[0] != '/' {
			return c16Expect{Kind: "pass"}
		}
	}
	res := path.Clean("/" + rem)
	if strings.ContainsRune(res, 0) {
		return c16Expect{Kind: "pass"}
	}
	if c, ok := c16Files[res]; ok {
		return c16Expect{Kind: "file", Body: c}
	}
	if c16IsDir(res) {
		cl := path.Clean(reqPath)
		if !strings.HasSuffix(reqPath, "/") && cl != "/" {
			return c16Expect{Kind: "redirect", Location: cl + "/"}
		}
		idx := o.Index
		if idx == "" {
			idx = "index.html"
		}
		if c, ok := c16Files[path.Join(res, idx)]; ok {
			return c16Expect{Kind: "file", Body: c}
		}
		return c16Expect{Kind: "pass"}
	}
	return c16Expect{Kind: "pass"}
}

type c16World struct {
	f      *flamego.Flame
	marker int
	// what the rest of the chain saw of the request when Static passed it on
	seenPath, seenURI string
}

func c16Build(root string, o c16Opts) *c16World {
	w := &c16World{f: flamego.NewWithLogger(io.Discard)}
	so := flamego.StaticOptions{Directory: filepath.Join(root, "pub"), Prefix: o.Prefix, Index: o.Index, SetETag: o.ETag, EnableLogging: o.Logging}
	if o.IOFS {
		so.Directory = filepath.Join(root, "does-not-exist")
		so.FileSystem = http.FS(os.DirFS(filepath.Join(root, "pub")))
	}
	if o.DirFS {
		so.Directory = root
		so.FileSystem = http.Dir(filepath.Join(root, "pub"))
	}
	if o.Missing {
		so.Directory = filepath.Join(root, "does-not-exist")
	}
	if o.Expires {
		so.Expires = func() string { return "EXPIRES-VALUE" }
	}
	if o.Cache {
		so.CacheControl = func() string { return "CACHE-VALUE" }
	}
	w.f.Use(flamego.Static(so))
	w.f.NotFound(func(c flamego.Context) {
		w.marker++
		w.seenPath, w.seenURI = c.Request().URL.Path, c.Request().RequestURI
		c.ResponseWriter().WriteHeader(299)
		_, _ = c.ResponseWriter().Write([]byte("MARKER"))
	})
	return w
}

type c16Case struct {
	Opts    c16Opts `json:"options"`
	Method  string  `json:"method"`
	PathHex string  `json:"path_hex"`
	Path    string  `json:"path_quoted"`
	INM     string  `json:"if_none_match"` // "", "match", "other"
}

func c16Serve(w *c16World, method, p, inm string) (*c01Spy, interface{}) {
	w.marker = 0
	spy := &c01Spy{hdr: http.Header{}}
	req := newReq(method, p)
	if inm != "" {
		req.Header.Set("If-None-Match", inm)
	}
	var pan interface{}
	func() {
		defer func() { pan = recover() }()
		w.f.ServeHTTP(spy, req)
	}()
	return spy, pan
}

func c16Judge(w *c16World, o c16Opts, method, p, inm string) (bad, kind, class string) {
	want := c16Model(method, p, o)
	etag := ""
	if inm != "" && o.ETag && want.Kind == "file" {
		// learn the entity tag from a plain request first
		s0, _ := c16Serve(w, method, p, "")
		etag = s0.hdr.Get("ETag")
	}
	hdr := ""
	switch inm {
	case "match":
		hdr = etag
		if hdr == "" {
			hdr = `"nothing-has-this-tag"`
		}
	case "other":
		hdr = `"some-other-tag"`
	}
	spy, pan := c16Serve(w, method, p, hdr)
	if pan != nil {
		return fmt.Sprintf("panicked: %v", pan), "panic", ""
	}
	body := spy.body.String()
	// independent invariants first
	for _, tok := range c16Outside {
		if strings.Contains(body, tok) {
			return fmt.Sprintf("response contains the content of a file outside the directory (%s)", tok), "outside-content", ""
		}
	}
	if spy.code == 200 {
		inside := false
		for _, c := range c16Files {
			if body == c || (method == "HEAD" && body == "") {
				inside = true
			}
		}
		if !inside {
			return fmt.Sprintf("200 response body %q is not the content of a regular file inside the directory", trunc(body)), "foreign-200", ""
		}
	}
	if o.IOFS && want.Kind != "pass" && w.marker == 1 && spy.code == 299 {
		// an io/fs file system refuses unclean names outright (fs.ValidPath); staying silent where a
		// directory on disk would serve is allowed, serving where it would not is not
		return "", "", "pass(io/fs stricter)"
	}
	switch want.Kind {
	case "pass":
		if w.marker != 1 || spy.code != 299 || (body != "MARKER" && !(method == "HEAD" && body == "")) {
			return fmt.Sprintf("cannot serve (model: pass) but the response is status %d body %q, rest of the chain ran %d times", spy.code, trunc(body), w.marker), "wrote-when-it-cannot-serve", ""
		}
		if w.seenPath != p || w.seenURI != p {
			return fmt.Sprintf("cannot serve: the request is passed on, but the rest of the chain sees URL.Path %q / RequestURI %q instead of %q", w.seenPath, w.seenURI, p), "request-altered-when-passed-on", ""
		}
		for _, h := range []string{"Expires", "Cache-Control", "Etag", "Location"} {
			if spy.hdr.Get(h) != "" {
				return fmt.Sprintf("cannot serve but header %s=%q was set", h, spy.hdr.Get(h)), "header-when-it-cannot-serve", ""
			}
		}
		return "", "", "pass"
	case "redirect":
		if spy.code != 302 || w.marker != 0 {
			return fmt.Sprintf("directory without trailing slash: status %d (marker ran %d), expected 302", spy.code, w.marker), "no-redirect", ""
		}
		loc := spy.hdr.Get("Location")
		if !strings.HasPrefix(p, "/") {
			// a request path that is not rooted: net/http resolves the relative redirect target against
			// the request path, so only the slash termination is asserted
			if !strings.HasSuffix(loc, "/") {
				return fmt.Sprintf("redirect target %q is not slash-terminated", loc), "redirect-target", ""
			}
		} else if loc != want.Location {
			return fmt.Sprintf("redirect to %q, expected the slash-terminated form %q", loc, want.Location), "redirect-target", ""
		}
		return "", "", "redirect"
	case "file":
		if w.marker != 0 {
			return "served a file and the rest of the chain also ran", "chain-after-serve", ""
		}
		if o.ETag && inm == "match" && etag != "" {
			if spy.code != 304 || body != "" {
				return fmt.Sprintf("matching If-None-Match: status %d body %q, expected 304 without body", spy.code, trunc(body)), "etag-304", ""
			}
			return "", "", "not-modified"
		}
		wantBody := want.Body
		if method == "HEAD" {
			wantBody = ""
		}
		if spy.code != 200 || body != wantBody {
			return fmt.Sprintf("status %d body %q, expected 200 %q", spy.code, trunc(body), wantBody), "wrong-file", ""
		}
		if o.ETag && spy.hdr.Get("ETag") == "" {
			return "SetETag on but no ETag header", "etag-missing", ""
		}
		// what is sent is the file - also when it is reached through its directory: its validators are the
		// file's own (every file of the fixture was last modified at c16ModTime; directories were not)
		if lm := spy.hdr.Get("Last-Modified"); lm != c16ModTime {
			return fmt.Sprintf("Last-Modified %q, the file served was last modified %q", lm, c16ModTime), "validators-of-another-entry", ""
		}
		if o.ETag && !o.IOFS && !o.DirFS {
			if direct := c16DirectETag(w, o, want.Body); direct != "" && spy.hdr.Get("ETag") != direct {
				return fmt.Sprintf("ETag %q, the same file requested by its own path carries %q", spy.hdr.Get("ETag"), direct), "validators-of-another-entry", ""
			}
		}
		if o.Expires != (spy.hdr.Get("Expires") == "EXPIRES-VALUE") || o.Cache != (spy.hdr.Get("Cache-Control") == "CACHE-VALUE") {
			return fmt.Sprintf("Expires=%q Cache-Control=%q do not reflect the options %+v", spy.hdr.Get("Expires"), spy.hdr.Get("Cache-Control"), o), "cache-headers", ""
		}
		return "", "", "file"
	}
	return "", "", ""
}

func c16Paths(maxSegs int) []string {
	alpha := []string{"", ".", "..", "st", "stx", "pub", "f.txt", "d", "e", "h", "secret.txt", "index.html", "%2e%2e", "..\\", "f.txt\x00", "g.txt"}
	seen := map[string]bool{}
	var out []string
	add := func(p string) {
		if !seen[p] {
			seen[p] = true
			out = append(out, p)
		}
	}
	var rec func(parts []string)
	rec = func(parts []string) {
		if len(parts) > 0 {
			j := strings.Join(parts, "/")
			add("/" + j)
			add("/" + j + "/")
			add(j)
		}
		if len(parts) == maxSegs {
			return
		}
		for _, a := range alpha {
			rec(append(append([]string{}, parts...), a))
		}
	}
	rec(nil)
	add("")
	return out
}

func c16Run(r *core.Run) {
	r.SetBudget(80 * time.Second)
	segs := 3
	if r.Thorough() {
		segs = 4
		r.SetBudget(12 * time.Minute)
	}
	root, cleanup := c16Fixture()
	defer cleanup()
	paths := c16Paths(segs)
	{
		l := core.NewLocal()
		c16Reuse(root, c16Paths(2), l)
		c16Twins(root, l)
		l.States += 3
		r.Merge(l)
	}
	var opts []c16Opts
	for _, pf := range []string{"", "st", "/st", "st/", "/st/"} {
		for _, ix := range []string{"", "g.txt"} {
			opts = append(opts, c16Opts{Prefix: pf, Index: ix})
		}
	}
	// every combination of the remaining options (thorough: with every prefix spelling)
	pfs := []string{"", "/st"}
	if r.Thorough() {
		pfs = []string{"", "st", "/st", "st/", "/st/"}
	}
	for _, pf := range pfs {
		for m := 1; m < 32; m++ {
			o := c16Opts{Prefix: pf, ETag: m&1 != 0, Expires: m&2 != 0, Cache: m&4 != 0, IOFS: m&8 != 0}
			if m&16 != 0 {
				o.Index = "g.txt"
			}
			if !r.Thorough() && pf != "" && m%3 != 0 {
				continue
			}
			opts = append(opts, o)
		}
	}
	// both FileSystem and Directory given (the file system counts; the directory here is the parent with the outside files)
	for _, pf := range []string{"", "/st"} {
		for _, ix := range []string{"", "g.txt"} {
			opts = append(opts, c16Opts{Prefix: pf, Index: ix, DirFS: true}, c16Opts{Prefix: pf, Index: ix, DirFS: true, ETag: true, Cache: true})
		}
	}
	// a directory that does not exist
	for _, pf := range []string{"", "st", "/st/"} {
		opts = append(opts, c16Opts{Prefix: pf, Missing: true}, c16Opts{Prefix: pf, Missing: true, ETag: true, Index: "g.txt"})
	}
	// logging switched on (it only adds a log line)
	for _, pf := range []string{"", "/st"} {
		opts = append(opts, c16Opts{Prefix: pf, Logging: true}, c16Opts{Prefix: pf, Index: "g.txt", Logging: true, ETag: true, Expires: true}, c16Opts{Prefix: pf, Logging: true, IOFS: true, Cache: true})
	}
	methods := []string{"GET", "HEAD", "POST", "PUT", "get", "Head"}
	r.Rule = "engine E: every request path of up to 3 (thorough 4) segments over {'', ., .., st, stx, pub, f.txt, d, e, h, secret.txt, index.html, %2e%2e, ..\\, f.txt+NUL, g.txt} with and without leading/trailing slash x methods {GET,HEAD,POST,PUT,get,Head} x the option sets (5 prefix spellings x 2 index names, and every combination of ETag/Expires/CacheControl/index/io-fs FileSystem with 2-5 prefix spellings, FileSystem and Directory both given, EnableLogging, a Directory that does not exist) x If-None-Match; two handlers built from one edited options slice; files that agree in name, size and modification time in two directories and inside/outside the served directory; {absent, matching, other} over a real directory tree with files outside it; oracle = resolution model over an in-memory copy of the fixture + independent invariants (a 200 body is the content of a regular file inside the directory, no outside token ever appears, 'cannot serve' leaves exactly the rest of the chain's response); non-trivial = path containing '..', an empty segment, NUL, a prefix look-alike or a directory"
	r.Bounds["paths"] = len(paths)
	r.Bounds["option_sets"] = len(opts)
	r.Bounds["methods"] = methods
	r.Assumptions = []string{"symbolic links and special files are outside the fixture", "Content-Type is not asserted (system mime tables)", "for request paths that do not start with a slash (incl. the empty path) only 'redirect to a slash-terminated target' is asserted: net/http rewrites relative redirect targets"}
	type job struct {
		o c16Opts
		m string
	}
	var jobs []job
	for _, o := range opts {
		for _, m := range methods {
			jobs = append(jobs, job{o, m})
		}
	}
	r.Parallel(func(w, nw int, l *core.Local) {
		for ji := w; ji < len(jobs); ji += nw {
			j := jobs[ji]
			world := c16Build(root, j.o)
			l.States++
			for pi, p := range paths {
				if pi%512 == 0 && r.Expired() {
					return
				}
				inms := []string{""}
				if j.o.ETag {
					inms = []string{"", "match", "other"}
				}
				for _, inm := range inms {
					l.Evals++
					l.Transitions++
					l.Traces++
					if strings.Contains(p, "..") || strings.Contains(p, "//") || strings.ContainsRune(p, 0) || strings.Contains(p, "stx") || strings.Contains(p, "pub") {
						l.NonTrivial++
					}
					bad, kind, class := c16Judge(world, j.o, j.m, p, inm)
					if bad != "" {
						l.Class("mismatch")
						l.Violate(kind+"/"+j.m, bad+fmt.Sprintf(" [options %+v, %s %q]", j.o, j.m, p), c16Case{j.o, j.m, fmt.Sprintf("%x", p), fmt.Sprintf("%q", p), inm})
						continue
					}
					l.Class(class + ":" + j.m)
					if (ji+pi)%20011 == 0 {
						l.Sample(map[string]interface{}{"options": j.o, "method": j.m, "path": fmt.Sprintf("%q", p), "outcome": class})
					}
				}
			}
		}
	})
}

// c16Twins: files that agree in name, size and modification time and differ in content and place - in two
// directories of one handler, and inside the directory of one handler and outside it (inside that of another
// handler of the same application). Requests in sequence; every answer is the content of the file the
// request names under the handler that answers.
func c16Twins(root string, l *core.Local) (first string) {
	f := flamego.NewWithLogger(io.Discard)
	f.Use(flamego.Static(flamego.StaticOptions{Directory: root, Prefix: "all", SetETag: true}))
	f.Use(flamego.Static(flamego.StaticOptions{Directory: filepath.Join(root, "pub"), SetETag: true}))
	f.NotFound(func(c flamego.Context) { c.ResponseWriter().WriteHeader(299) })
	seq := [][2]string{{"/all/f.txt", c16Outside["f.txt"]}, {"/f.txt", c16Files["/f.txt"]}, {"/all/f.txt", c16Outside["f.txt"]}, {"/all/pub/f.txt", c16Files["/f.txt"]},
		{"/d/g.txt", c16Files["/d/g.txt"]}, {"/e/g.txt", c16Files["/e/g.txt"]}, {"/d/g.txt", c16Files["/d/g.txt"]}, {"/all/pub/e/g.txt", c16Files["/e/g.txt"]}, {"/f.txt", c16Files["/f.txt"]}}
	for _, method := range []string{"GET", "HEAD", "GET"} {
		for i, st := range seq {
			l.Evals++
			l.Transitions++
			l.Traces++
			l.NonTrivial++
			spy := &c01Spy{hdr: http.Header{}}
			var pan interface{}
			func() {
				defer func() { pan = recover() }()
				f.ServeHTTP(spy, newReq(method, st[0]))
			}()
			want := st[1]
			if method == "HEAD" {
				want = ""
			}
			if pan != nil || spy.code != 200 || spy.body.String() != want {
				bad := fmt.Sprintf("request %d of the sequence, %s %q: status %d body %q (panic %v), the file it names holds %q", i+1, method, st[0], spy.code, trunc(spy.body.String()), pan, st[1])
				if first == "" {
					first = bad
				}
				l.Class("mismatch")
				l.Violate("content-of-another-file/"+method, bad, c16Case{Method: "twin-files", Path: fmt.Sprintf("%q", st[0])})
			} else {
				l.Class("twin-files:own-content")
			}
		}
	}
	return first
}

// c16Reuse: two Static handlers built one after the other from ONE options slice that the caller edits in
// between (directory and prefix), next to twins built from two independent option values: every request
// must be answered identically (a handler is configured by the values it was given when it was built).
func c16Reuse(root string, paths []string, l *core.Local) (first string) {
	build := func(shared bool) *flamego.Flame {
		f := flamego.NewWithLogger(io.Discard)
		dirA, dirB := filepath.Join(root, "pub"), filepath.Join(root, "pub", "d")
		if shared {
			opts := make([]flamego.StaticOptions, 1, 2)
			opts[0] = flamego.StaticOptions{Directory: dirA, Prefix: "st"}
			f.Use(flamego.Static(opts...))
			opts[0].Directory, opts[0].Prefix, opts[0].Index = dirB, "pub", "h"
			f.Use(flamego.Static(opts...))
			opts[0] = flamego.StaticOptions{Directory: filepath.Join(root, "does-not-exist")}
		} else {
			f.Use(flamego.Static(flamego.StaticOptions{Directory: dirA, Prefix: "st"}))
			f.Use(flamego.Static(flamego.StaticOptions{Directory: dirB, Prefix: "pub", Index: "h"}))
		}
		f.NotFound(func(c flamego.Context) {
			c.ResponseWriter().WriteHeader(299)
			_, _ = c.ResponseWriter().Write([]byte("MARKER"))
		})
		return f
	}
	fs, fi := build(true), build(false)
	serve := func(f *flamego.Flame, p string) string {
		spy := &c01Spy{hdr: http.Header{}}
		var pan interface{}
		func() {
			defer func() { pan = recover() }()
			f.ServeHTTP(spy, newReq("GET", p))
		}()
		return fmt.Sprintf("status %d body %q location %q panic %v", spy.code, trunc(spy.body.String()), spy.hdr.Get("Location"), pan)
	}
	for _, p := range paths {
		for _, pre := range []string{"/st", "/pub", ""} {
			req := pre + p
			l.Evals++
			l.Transitions++
			l.Traces++
			l.NonTrivial++
			a, b := serve(fs, req), serve(fi, req)
			if a != b {
				bad := fmt.Sprintf("GET %q: handlers built from one edited options slice answer %s; handlers built from independent option values answer %s", req, a, b)
				if first == "" {
					first = bad
				}
				l.Class("mismatch")
				l.Violate("options-slice-reused/GET", bad, c16Case{Method: "options-reuse", PathHex: fmt.Sprintf("%x", req), Path: fmt.Sprintf("%q", req)})
			} else {
				l.Class("options-reuse:same-answer")
			}
		}
	}
	return first
}

func c16Replay(raw json.RawMessage) (bool, string) {
	var c c16Case
	if err := json.Unmarshal(raw, &c); err != nil {
		return false, err.Error()
	}
	if c.Method == "twin-files" {
		root, cleanup := c16Fixture()
		defer cleanup()
		bad := c16Twins(root, core.NewLocal())
		return bad != "", bad
	}
	if c.Method == "options-reuse" {
		root, cleanup := c16Fixture()
		defer cleanup()
		bad := c16Reuse(root, c16Paths(2), core.NewLocal())
		return bad != "", bad
	}
	var p []byte
	if c.PathHex != "" {
		if _, err := fmt.Sscanf(c.PathHex, "%x", &p); err != nil {
			return false, err.Error()
		}
	}
	root, cleanup := c16Fixture()
	defer cleanup()
	w := c16Build(root, c.Opts)
	bad, _, _ := c16Judge(w, c.Opts, c.Method, string(p), c.INM)
	return bad != "", bad
}

func init() {
	core.Register(&core.Check{ID: "C16", Run: c16Run, Replay: c16Replay})
}
