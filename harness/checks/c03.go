package checks

import (
	gocontext "context"
	"encoding/json"
	"fmt"
	"io"
	"net/http"
	"strings"
	"time"

	"github.com/flamego/flamego"
	"github.com/flamego/flamego/verifharness/core"
)

// ---- C03: handler chain: ordered, at-most-once, onion, stops on write or cancel (engine E + trace acceptor) ----

type c03Beh struct {
	Acts string `json:"actions"` // over N (call Next), W (write a status), C (cancel the request's current context), T (install a derived cancellable context on the request, as a timeout middleware does)
	Term int    `json:"terminal"`
}

var c03TermNames = []string{"return-nothing", `return-""`, "return-string", "panic"}

func (b c03Beh) String() string { return "[" + b.Acts + "|" + c03TermNames[b.Term] + "]" }

func c03Behaviours(maxActs int, extra ...string) []c03Beh {
	acts := []string{""}
	for l := 1; l <= maxActs; l++ {
		acts = append(acts, stringsOverLen([]string{"N", "W", "C"}, l)...)
	}
	acts = append(acts, extra...)
	var out []c03Beh
	for _, a := range acts {
		for t := 0; t < 4; t++ {
			out = append(out, c03Beh{a, t})
		}
	}
	return out
}

func stringsOverLen(alpha []string, n int) []string {
	out := []string{""}
	for i := 0; i < n; i++ {
		var next []string
		for _, p := range out {
			for _, a := range alpha {
				next = append(next, p+a)
			}
		}
		out = next
	}
	return out
}

type c03Shape struct {
	M, G, R int
	Action  bool
	Flat    bool // all group handlers on one Group instead of nested groups
	Late    bool // the last application middleware and the action are installed only after the application has served requests
	Swap    bool // the application first serves with as many do-nothing middleware, which Handlers() then replaces by the real ones
	Info    bool `json:",omitempty"` // handlers that write send an informational status (100+position) instead of 201+position
	Sig     int  `json:",omitempty"` // >0: handlers that return nothing use, by position, the other handler types (func(http.ResponseWriter, *http.Request), http.HandlerFunc, a reflectively invoked func(Context, *http.Request), func(Context) error and func() error returning nil), shifted by Sig
	SwapN   int  `json:",omitempty"` // with Swap: this many stand-in middleware more than real ones are installed first (one Use call each), so that Handlers() replaces a longer stack by a shorter one; the final action, if any, is then set before that Handlers() call
	Hollow  bool `json:",omitempty"` // in every group, a nested group without handlers (holding another route) is opened and closed before the next level / the probed route is registered
	Multi   bool `json:",omitempty"` // the route is registered through Routes with three method names given as separate leading strings
	Wrap    bool `json:",omitempty"` // a HandlerWrapper (the identity) is configured before anything is registered
	Head    bool `json:",omitempty"` // AutoHead is on and the request is a HEAD request (served by the chain registered alongside the GET route)
	Closed  bool `json:",omitempty"` // in every group, a nested group WITH a handler of its own (holding another route) is opened and closed before the next level / the probed route is registered: its handler is in no chain but its own
	Prefix  bool `json:",omitempty"` // a sibling route is registered with a prefix of the probed route's handler list (one backing array, the last handler left out) and is served once before every probe
	Refused bool `json:",omitempty"` // around every accepted Use call and the route registration, a Use / Get / Action call that is refused for a non-callable argument (the panic is recovered): nothing of a refused call is in any chain
}

func (s c03Shape) n() int {
	n := s.M + s.G + s.R
	if s.Action {
		n++
	}
	return n
}

func (s c03Shape) String() string {
	return fmt.Sprintf("mw=%d group=%d route=%d action=%v flat=%v late=%v swap=%v autohead=%v informational-statuses=%v handler-types=%d handler-wrapper=%v routes-with-three-method-strings=%v handler-less-nested-groups=%v extra-stand-ins=%d refused-registrations-around=%v sibling-route-on-a-prefix-of-the-handler-list=%v closed-nested-groups-with-handlers=%v", s.M, s.G, s.R, s.Action, s.Flat, s.Late, s.Swap, s.Head, s.Info, s.Sig, s.Wrap, s.Multi, s.Hollow, s.SwapN, s.Refused, s.Prefix, s.Closed)
}

type c03Ev struct {
	K       byte // E N R W C X P, V = a guarded Next() call ended by a recovered panic
	I       int
	Guard   bool // on N: the call is guarded by a recover of the calling handler
	Written bool
	Cancel  bool
	Ret     int
}

type c03World struct {
	f      *flamego.Flame
	path   string
	method string
	base   int // status written by position i is base+i
	sig    int
	cur    flamego.Context // the request's context, noted by an untraced first middleware (for handler types that are not handed one)
	prog   []c03Beh
	trace  []c03Ev
	cancel gocontext.CancelFunc
	// short: the path of the sibling route registered on a prefix of the handler list (served before every probe)
	short string
}

func (w *c03World) body(i int, c flamego.Context) (ret string) {
	w.trace = append(w.trace, c03Ev{K: 'E', I: i, Written: c.ResponseWriter().Written(), Cancel: c.Request().Context().Err() != nil})
	b := w.prog[i]
	for _, a := range b.Acts {
		switch a {
		case 'N':
			w.trace = append(w.trace, c03Ev{K: 'N', I: i})
			c.Next()
			w.trace = append(w.trace, c03Ev{K: 'R', I: i})
		case 'G':
			// Next() guarded by a recover of the handler's own: a panic of a later handler ends that call
			w.trace = append(w.trace, c03Ev{K: 'N', I: i, Guard: true})
			if func() (recovered bool) {
				defer func() {
					if recover() != nil {
						recovered = true
					}
				}()
				c.Next()
				return false
			}() {
				w.trace = append(w.trace, c03Ev{K: 'V', I: i})
			} else {
				w.trace = append(w.trace, c03Ev{K: 'R', I: i})
			}
		case 'W':
			w.trace = append(w.trace, c03Ev{K: 'W', I: i})
			c.ResponseWriter().WriteHeader(w.base + i)
		case 'C':
			w.trace = append(w.trace, c03Ev{K: 'C', I: i})
			w.cancel()
		case 'D':
			// the request goes on under a context whose deadline has passed: done, as after a cancel
			w.trace = append(w.trace, c03Ev{K: 'C', I: i})
			ctx, cancel := gocontext.WithDeadline(c.Request().Context(), time.Unix(1, 0))
			c.Request().Request = c.Request().Request.WithContext(ctx)
			_ = cancel
		case 'T':
			w.trace = append(w.trace, c03Ev{K: 'T', I: i})
			ctx, cancel := gocontext.WithCancel(c.Request().Context())
			c.Request().Request = c.Request().Request.WithContext(ctx)
			w.cancel = cancel
		}
	}
	if b.Term == 3 {
		w.trace = append(w.trace, c03Ev{K: 'P', I: i})
		panic(fmt.Sprintf("c03 handler %d", i))
	}
	w.trace = append(w.trace, c03Ev{K: 'X', I: i, Ret: b.Term})
	if b.Term == 2 {
		return fmt.Sprintf("s%d", i)
	}
	return ""
}

// mk returns a handler of the signature the terminal needs: returning string, or nothing.
func (w *c03World) mk(i int, returnsString bool) flamego.Handler {
	if returnsString {
		return func(c flamego.Context) string { return w.body(i, c) }
	}
	if w.sig > 0 {
		switch (i + w.sig) % 6 {
		case 4:
			// handlers that return a nil error (nothing to render: the chain goes on as for "returns nothing")
			return func(c flamego.Context) error { w.body(i, c); return nil }
		case 5:
			return func() error { w.body(i, w.cur); return nil }
		case 1:
			return func(rw http.ResponseWriter, req *http.Request) { w.body(i, w.cur) }
		case 2:
			return http.HandlerFunc(func(rw http.ResponseWriter, req *http.Request) { w.body(i, w.cur) })
		case 3:
			return func(c flamego.Context, req *http.Request) { w.body(i, c) }
		}
	}
	return func(c flamego.Context) { w.body(i, c) }
}

func c03Build(s c03Shape, strMask int) *c03World {
	w := &c03World{f: flamego.NewWithLogger(io.Discard), method: "GET", base: 201}
	if s.Info {
		w.base = 100
	}
	if s.Wrap {
		w.f.HandlerWrapper(func(h flamego.Handler) flamego.Handler { return h })
	}
	if s.Sig > 0 {
		w.sig = s.Sig
		w.f.Use(func(c flamego.Context) { w.cur = c }) // untraced: writes nothing, returns, the chain goes on
	}
	if s.Head {
		w.f.AutoHead(true)
		w.method = "HEAD"
	}
	id := 0
	next := func() flamego.Handler {
		h := w.mk(id, strMask&(1<<id) != 0)
		id++
		return h
	}
	var lateMW flamego.Handler
	var realMW []flamego.Handler
	actionSet := false
	alien := func(c flamego.Context) { w.trace = append(w.trace, c03Ev{K: 'E', I: 90}) }
	refused := func(what string) {
		if !s.Refused {
			return
		}
		func() {
			defer func() { _ = recover() }()
			switch what {
			case "use":
				w.f.Use(alien, 42, alien)
			case "get":
				w.f.Get("/refused", alien, "not-callable")
			case "action":
				w.f.Action(42)
			}
		}()
	}
	for i := 0; i < s.M; i++ {
		refused("use")
		h := next()
		if s.Swap {
			realMW = append(realMW, h)
			// a stand-in that must never run once the real middleware has been installed
			w.f.Use(func(c flamego.Context) { w.trace = append(w.trace, c03Ev{K: 'E', I: 90}) })
			if i == 0 {
				for x := 0; x < s.SwapN; x++ {
					w.f.Use(func(c flamego.Context) { w.trace = append(w.trace, c03Ev{K: 'E', I: 90}) })
				}
			}
			continue
		}
		if s.Late && i == s.M-1 {
			lateMW = h
			continue
		}
		w.f.Use(h)
	}
	refused("use")
	var gh []flamego.Handler
	for i := 0; i < s.G; i++ {
		gh = append(gh, next())
	}
	var rh []flamego.Handler
	for i := 0; i < s.R; i++ {
		rh = append(rh, next())
	}
	get := func(path string, hs ...flamego.Handler) {
		refused("get")
		defer refused("get")
		if s.Multi {
			w.f.Routes(path, "GET", append([]flamego.Handler{"POST", "PUT"}, hs...)...)
			return
		}
		w.f.Get(path, hs...)
	}
	// a sibling route registered right after the probed one, in the same scope, with a handler of its
	// own: it must never show up in the probed route's chain (id 90 is no position of the chain)
	sibling := func() {
		w.f.Get("/sibling", func(c flamego.Context) { w.trace = append(w.trace, c03Ev{K: 'E', I: 90}) })
		if s.Prefix && len(rh) >= 2 {
			// the application's own slice, one element shorter: whatever the framework appends to ITS copy of
			// this list while serving /short must not land in the probed route's chain
			w.f.Get("/short", rh[:len(rh)-1]...)
			w.short = "/short" // completed with the scope's prefix once the probed path is known
		}
	}
	switch {
	case s.G == 0:
		get("/x", rh...)
		sibling()
		w.path = "/x"
	case s.Flat:
		w.f.Group("/g", func() { get("/x", rh...); sibling() }, gh...)
		w.path = "/g/x"
	default:
		var nest func(d int)
		nest = func(d int) {
			if s.Hollow && d > 0 {
				w.f.Group("/hollow", func() { w.f.Get(fmt.Sprintf("/h%d", d), func() {}) })
			}
			if s.Closed && d > 0 {
				w.f.Group("/closed", func() { w.f.Get(fmt.Sprintf("/c%d", d), func() {}) }, alien)
			}
			if d == s.G {
				get("/x", rh...)
				sibling()
				return
			}
			w.f.Group(fmt.Sprintf("/g%d", d), func() { nest(d + 1) }, gh[d])
		}
		nest(0)
		for d := 0; d < s.G; d++ {
			w.path += fmt.Sprintf("/g%d", d)
		}
		w.path += "/x"
	}
	if s.Swap {
		w.prog = make([]c03Beh, s.n())
		for i := 0; i < 2; i++ {
			func() {
				defer func() { _ = recover() }()
				w.f.ServeHTTP(&c01Spy{hdr: http.Header{}}, newReq(w.method, w.path))
			}()
		}
		w.trace = w.trace[:0]
		if s.Action && s.SwapN > 0 {
			// the final action is set before the middleware stack is replaced: Handlers() replaces the
			// middleware, nothing else
			aid := s.M + s.G + s.R
			w.f.Action(w.mk(aid, strMask&(1<<aid) != 0))
			actionSet = true
		}
		w.f.Handlers(realMW...)
	}
	if s.Late {
		// serve before the configuration is complete, then complete it
		w.prog = make([]c03Beh, s.n())
		for i := 0; i < 2; i++ {
			func() {
				defer func() { _ = recover() }()
				w.f.ServeHTTP(&c01Spy{hdr: http.Header{}}, newReq(w.method, w.path))
			}()
		}
		w.trace = w.trace[:0]
		if lateMW != nil {
			w.f.Use(lateMW)
		}
	}
	if w.short != "" {
		w.short = strings.TrimSuffix(w.path, "/x") + "/short"
	}
	refused("action")
	if s.Action && !actionSet {
		w.f.Action(next())
	}
	refused("action")
	refused("use")
	return w
}

// c03Accept is the trace acceptor: returns "" when the trace is one the statement allows.
func c03Accept(total int, tr []c03Ev, gotStatus int, gotBody string) (bad, kind string) {
	return c03AcceptBase(total, tr, gotStatus, gotBody, 201)
}

func c03AcceptBase(total int, tr []c03Ev, gotStatus int, gotBody string, base int) (bad, kind string) {
	type frame struct {
		next bool // a Next() call frame
		id   int
		// guarded: the Next() call is wrapped in a recover of the calling handler
		guarded bool
		// for Next frames: state at call time
		open bool // written or cancelled or exhausted at call time
	}
	var stack []frame
	started := 0
	written, cancelled := false, false
	wantStatus, wantBody := 0, ""
	top := func() *frame {
		if len(stack) == 0 {
			return nil
		}
		return &stack[len(stack)-1]
	}
	var prev byte
	for n, ev := range tr {
		at := fmt.Sprintf("event %d (%c%d)", n, ev.K, ev.I)
		if prev == 'P' && ev.K != 'V' {
			return at + ": events after a panic that no handler recovered", "events-after-panic"
		}
		switch ev.K {
		case 'V':
			// handler ev.I recovered, around its Next() call, the panic of a later handler: everything that
			// call had started is abandoned; the handler goes on; not-yet-started handlers stay not started
			if prev != 'P' {
				return at + ": a guarded Next() reports a panic that no handler raised", "bad-nesting"
			}
			k := len(stack) - 1
			for k >= 0 && !(stack[k].next && stack[k].id == ev.I) {
				k--
			}
			if k < 0 {
				return at + ": panic recovered by a handler that has no Next() call in progress", "bad-nesting"
			}
			for j := k + 1; j < len(stack); j++ {
				if stack[j].next && stack[j].guarded {
					return fmt.Sprintf("%s: the panic passed the guarded Next() of handler %d and was recovered further out", at, stack[j].id), "panic-passed-a-guard"
				}
			}
			stack = stack[:k]
		case 'E':
			if ev.I != started {
				if ev.I == 90 {
					return fmt.Sprintf("%s: a handler that does not belong to this chain ran (a sibling route's handler, or middleware that had been replaced)", at), "foreign-handler"
				}
				if ev.I < started {
					return fmt.Sprintf("%s: handler %d started again (at most once)", at, ev.I), "started-twice"
				}
				return fmt.Sprintf("%s: handler %d started while handler %d has not started (skipped)", at, ev.I, started), "handler-skipped"
			}
			switch {
			case n == 0:
			case prev == 'N':
				// explicit Next(): always allowed to start the next handler
			case prev == 'X':
				if written {
					return fmt.Sprintf("%s: chain advanced on its own after the response had been written", at), "advance-after-write"
				}
				if cancelled {
					return fmt.Sprintf("%s: chain advanced on its own after the request context was cancelled", at), "advance-after-cancel"
				}
			default:
				return fmt.Sprintf("%s: handler started in the middle of another handler", at), "bad-nesting"
			}
			if ev.Written != written || ev.Cancel != cancelled {
				return fmt.Sprintf("%s: handler observes written=%v cancelled=%v, trace says %v %v", at, ev.Written, ev.Cancel, written, cancelled), "observed-state"
			}
			stack = append(stack, frame{id: ev.I})
			started++
		case 'N':
			if t := top(); t == nil || t.next || t.id != ev.I {
				return at + ": Next() call from a handler that is not on top", "bad-nesting"
			}
			stack = append(stack, frame{next: true, id: ev.I, open: written || cancelled || started == total, guarded: ev.Guard})
		case 'R':
			t := top()
			if t == nil || !t.next || t.id != ev.I {
				return at + ": Next() returned while handlers it started are still running (onion nesting)", "bad-nesting"
			}
			if prev == 'N' {
				if !t.open {
					return fmt.Sprintf("%s: Next() started nothing although the chain is not exhausted, nothing written, not cancelled", at), "next-did-nothing"
				}
			} else if !(written || cancelled || started == total) {
				return fmt.Sprintf("%s: the remainder of the chain stopped early inside Next() (nothing written, not cancelled, %d of %d started)", at, started, total), "stopped-early"
			}
			stack = stack[:len(stack)-1]
		case 'W', 'C', 'T', 'X', 'P':
			if t := top(); t == nil || t.next || t.id != ev.I {
				return at + ": event from a handler that is not on top of the stack", "bad-nesting"
			}
			switch ev.K {
			case 'W':
				if !written {
					written, wantStatus = true, base+ev.I
				}
			case 'C':
				cancelled = true
			case 'X':
				stack = stack[:len(stack)-1]
				if ev.Ret == 2 {
					if !written {
						written, wantStatus = true, 200
					}
					wantBody += fmt.Sprintf("s%d", ev.I)
				}
			}
		}
		prev = ev.K
	}
	if prev == 'P' {
		for _, fr := range stack {
			if fr.next && fr.guarded {
				return fmt.Sprintf("the panic was not stopped by the guarded Next() of handler %d", fr.id), "panic-passed-a-guard"
			}
		}
	}
	if prev != 'P' {
		if len(stack) != 0 {
			return "trace ended with handlers still running", "bad-nesting"
		}
		if len(tr) == 0 {
			if total > 0 {
				return "no handler ran", "nothing-ran"
			}
		} else if !(written || cancelled || started == total) {
			return fmt.Sprintf("chain stopped after %d of %d handlers although nothing was written and nothing cancelled", started, total), "stopped-early"
		}
	}
	if gotStatus != wantStatus || gotBody != wantBody {
		return fmt.Sprintf("response status %d body %q, the trace implies status %d body %q", gotStatus, gotBody, wantStatus, wantBody), "response"
	}
	return "", ""
}

// c03ImpliedBody: the strings the trace's handlers returned, in order (what a GET would have received).
func c03ImpliedBody(tr []c03Ev) string {
	b := ""
	for _, ev := range tr {
		if ev.K == 'X' && ev.Ret == 2 {
			b += fmt.Sprintf("s%d", ev.I)
		}
	}
	return b
}

func c03TraceString(tr []c03Ev) string {
	var b strings.Builder
	for _, e := range tr {
		switch e.K {
		case 'E':
			fmt.Fprintf(&b, "start%d ", e.I)
		case 'N':
			fmt.Fprintf(&b, "%d:Next( ", e.I)
		case 'R':
			fmt.Fprintf(&b, ")%d ", e.I)
		case 'W':
			fmt.Fprintf(&b, "%d:write ", e.I)
		case 'C':
			fmt.Fprintf(&b, "%d:cancel ", e.I)
		case 'T':
			fmt.Fprintf(&b, "%d:install-context ", e.I)
		case 'X':
			fmt.Fprintf(&b, "end%d ", e.I)
		case 'P':
			fmt.Fprintf(&b, "%d:panic ", e.I)
		case 'V':
			fmt.Fprintf(&b, ")%d:recovered ", e.I)
		}
	}
	return strings.TrimSpace(b.String())
}

func (w *c03World) run(prog []c03Beh) (status int, body string, escaped interface{}) {
	if w.short != "" {
		// the sibling route first, every handler of it doing nothing (the chain runs through to the action)
		w.prog = make([]c03Beh, len(prog))
		func() {
			defer func() { _ = recover() }()
			w.f.ServeHTTP(&c01Spy{hdr: http.Header{}}, newReq(w.method, w.short))
		}()
	}
	w.prog = prog
	w.trace = w.trace[:0]
	ctx, cancel := gocontext.WithCancel(gocontext.Background())
	w.cancel = cancel
	defer cancel()
	req := newReq(w.method, w.path).WithContext(ctx)
	spy := &c01Spy{hdr: http.Header{}}
	func() {
		defer func() { escaped = recover() }()
		w.f.ServeHTTP(spy, req)
	}()
	return spy.code, spy.body.String(), escaped
}

type c03Case struct {
	Shape c03Shape `json:"stack"`
	Prog  []c03Beh `json:"handlers_in_chain_order"`
}

func c03Judge(w *c03World, s c03Shape, prog []c03Beh) (bad, kind string) {
	status, body, esc := w.run(prog)
	// a panic that no guarded Next() recovered is the last event of the trace
	panics := len(w.trace) > 0 && w.trace[len(w.trace)-1].K == 'P'
	if esc != nil && !panics {
		return fmt.Sprintf("ServeHTTP panicked although no handler panics: %v; trace: %s", esc, c03TraceString(w.trace)), "framework-panic"
	}
	if esc == nil && panics {
		return "a handler panic vanished without Recovery installed", "panic-swallowed"
	}
	if s.Head {
		// a HEAD response carries no body: the chain and the status are what the statement fixes
		if body != "" {
			return fmt.Sprintf("HEAD request received a body %q; trace: %s", body, c03TraceString(w.trace)), "head-body"
		}
		body = c03ImpliedBody(w.trace)
	}
	b, k := c03AcceptBase(s.n(), w.trace, status, body, w.base)
	if b != "" {
		return b + "; trace: " + c03TraceString(w.trace), k
	}
	return "", ""
}

func c03Shapes(maxN int, thorough bool) []c03Shape {
	var out []c03Shape
	for n := 1; n <= maxN; n++ {
		for _, act := range []bool{false, true} {
			k := n
			if act {
				k--
			}
			for m := 0; m <= k; m++ {
				for g := 0; g <= k-m; g++ {
					r := k - m - g
					out = append(out, c03Shape{M: m, G: g, R: r, Action: act})
					if g >= 2 && thorough {
						out = append(out, c03Shape{M: m, G: g, R: r, Action: act, Flat: true})
					}
					if (m >= 1 || act) && (thorough || n <= 3) {
						out = append(out, c03Shape{M: m, G: g, R: r, Action: act, Late: true})
					}
					if m >= 1 && (thorough || n <= 3) {
						out = append(out, c03Shape{M: m, G: g, R: r, Action: act, Swap: true})
						out = append(out, c03Shape{M: m, G: g, R: r, Action: act, Swap: true, SwapN: 2})
					}
					if thorough || n <= 3 {
						out = append(out, c03Shape{M: m, G: g, R: r, Action: act, Sig: 1}, c03Shape{M: m, G: g, R: r, Action: act, Sig: 2}, c03Shape{M: m, G: g, R: r, Action: act, Sig: 4})
						out = append(out, c03Shape{M: m, G: g, R: r, Action: act, Info: true})
						out = append(out, c03Shape{M: m, G: g, R: r, Action: act, Wrap: true})
						if r >= 1 {
							out = append(out, c03Shape{M: m, G: g, R: r, Action: act, Multi: true})
						}
						if g >= 1 {
							out = append(out, c03Shape{M: m, G: g, R: r, Action: act, Hollow: true})
							out = append(out, c03Shape{M: m, G: g, R: r, Action: act, Closed: true})
						}
						out = append(out, c03Shape{M: m, G: g, R: r, Action: act, Head: true})
						out = append(out, c03Shape{M: m, G: g, R: r, Action: act, Refused: true})
						if r >= 2 {
							out = append(out, c03Shape{M: m, G: g, R: r, Action: act, Prefix: true})
						}
						if g >= 2 {
							out = append(out, c03Shape{M: m, G: g, R: r, Action: act, Flat: true, Head: true})
						}
					}
				}
			}
		}
	}
	return out
}

func c03Run(r *core.Run) {
	r.Rule = "engine E: every handler program = stack shape (app middleware / nested group handlers / route handlers / optional action; handler types func(Context), func(Context) string, func(ResponseWriter, *Request), http.HandlerFunc, func(Context, *Request), func(Context) error and func() error returning nil) x one behaviour per position (action string over {Next, write, cancel, install a derived context, install a context past its deadline, Next guarded by the handler's own recover} + terminal {return nothing, return \"\", return a string, panic}); each program is one request on a real Flame; stack variants: installed late, swapped by Handlers(), flat groups, AutoHead, informational statuses, a HandlerWrapper, Routes with several method strings, handler-less nested groups, closed nested groups with a handler of their own, refused Use/Get/Action calls (non-callable argument, recovered) around the accepted ones, a sibling route registered on a prefix of the probed route's handler slice and served before every probe; the recorded event trace must be accepted by the trace automaton (chain order, at most once, none skipped, onion nesting, automatic advance iff nothing written and not cancelled, Next() completeness) and the response must equal what the trace implies; non-trivial = program with at least one Next() and at least one write/cancel/panic/returned string"
	r.Assumptions = []string{"an explicit Next() after a write or after a cancel may start the next handler or not (the statement leaves it open); everything else is exact", "no Recovery in the stack (C15 covers it)"}
	type plan struct {
		minN, maxN int
		behs       []c03Beh
		label      string
		which      int // 0: all shapes, 1: base shapes only, 2: variant shapes only (late / swapped / flat / AutoHead / informational)
	}
	var plans []plan
	red := []c03Beh{}
	for _, a := range []string{"", "N", "W", "NN", "C", "T", "TC", "G", "D"} {
		for _, t := range []int{0, 2, 3} {
			red = append(red, c03Beh{a, t})
		}
	}
	if r.Thorough() {
		r.SetBudget(35 * time.Minute)
		rich := c03Behaviours(3, "T", "TC", "TN", "NT", "TCN", "TNC", "CT", "TW", "TT", "TTC", "G", "GN", "GW", "D", "DN", "ND")
		mid := c03Behaviours(2, "T", "TC", "TN", "NT", "TCN", "TNC", "CT", "TW", "TT", "TTC", "G", "GN", "GW", "D", "DN")
		plans = []plan{
			{1, 3, mid, "<=3 positions, every shape and variant, action strings <=2 over {N,W,C} plus ten context-installing ones", 0},
			{1, 2, rich, "<=2 positions, every shape and variant, action strings <=3", 0},
			{3, 3, rich, "3 positions, base shapes, action strings <=3 plus context-installing ones", 1},
			{4, 4, c03Behaviours(2, "T", "G"), "4 positions, base shapes, action strings <=2 plus T, G", 1},
			{4, 4, red, "4 positions, variant shapes, actions {'',N,W,NN,C,T,TC} x {nothing,string,panic}", 2},
			{5, 5, c03Behaviours(1, "T", "G"), "5 positions, base shapes, action strings <=1 plus T, G", 1},
		}
	} else {
		r.SetBudget(100 * time.Second)
		mid := []c03Beh{}
		for _, a := range []string{"", "N", "W", "C", "NN", "NW", "WN", "NC", "T", "TC", "G", "D"} {
			for _, t := range []int{0, 2, 3} {
				mid = append(mid, c03Beh{a, t})
			}
		}
		plans = []plan{{1, 3, c03Behaviours(2, "T", "TC", "TN", "TCN", "G", "GN"), "<=3 positions, base shapes, action strings <=2 over {N,W,C} plus T, TC, TN, TCN, G, GN (G = Next() guarded by a recover of the handler)", 1},
			{1, 3, mid, "<=3 positions, variant shapes, actions {'',N,W,C,NN,NW,WN,NC,T,TC} x {nothing,string,panic}", 2},
			{4, 4, red, "4 positions, actions {'',N,W,NN,C,T,TC} x {nothing,string,panic}", 0}}
	}
	var labels []string
	for _, pl := range plans {
		labels = append(labels, pl.label)
		shapes := c03Shapes(pl.maxN, r.Thorough())
		nb := len(pl.behs)
		// jobs: (shape, first behaviour) so that work is spread; each job enumerates the rest
		type job struct {
			s     c03Shape
			first int
		}
		var jobs []job
		for _, s := range shapes {
			base := !(s.Flat || s.Late || s.Swap || s.Head || s.Info || s.Sig > 0 || s.Wrap || s.Multi || s.Hollow || s.Refused || s.Prefix || s.Closed)
			if s.n() < pl.minN || (pl.which == 1 && !base) || (pl.which == 2 && base) {
				continue
			}
			for b := 0; b < nb; b++ {
				jobs = append(jobs, job{s, b})
			}
		}
		r.Parallel(func(w, nw int, l *core.Local) {
			cache := map[string]*c03World{}
			for ji := w; ji < len(jobs); ji += nw {
				if r.Expired() {
					return
				}
				j := jobs[ji]
				n := j.s.n()
				prog := make([]c03Beh, n)
				idx := make([]int, n)
				idx[0] = j.first
				count := 1
				for i := 1; i < n; i++ {
					count *= nb
				}
				for c := 0; c < count; c++ {
					x := c
					for i := n - 1; i >= 1; i-- {
						idx[i] = x % nb
						x /= nb
					}
					mask := 0
					hasNext, hasEffect := false, false
					for i := range prog {
						prog[i] = pl.behs[idx[i]]
						if prog[i].Term == 1 || prog[i].Term == 2 {
							mask |= 1 << i
						}
						if strings.ContainsAny(prog[i].Acts, "NG") {
							hasNext = true
						}
						if strings.ContainsAny(prog[i].Acts, "WCT") || prog[i].Term >= 2 {
							hasEffect = true
						}
					}
					key := fmt.Sprintf("%v/%d", j.s, mask)
					wd := cache[key]
					if wd == nil {
						wd = c03Build(j.s, mask)
						cache[key] = wd
						l.States++
					}
					l.Evals++
					l.Transitions++
					l.Traces++
					if hasNext && hasEffect {
						l.NonTrivial++
					}
					bad, kind := c03Judge(wd, j.s, prog)
					if bad != "" {
						l.Class("rejected:" + kind)
						cp := append([]c03Beh(nil), prog...)
						l.Violate(kind, bad+fmt.Sprintf(" [stack %v, handlers %v]", j.s, cp), c03Case{Shape: j.s, Prog: cp})
						continue
					}
					// outcome class from the trace
					cls := "completed"
					startedAll := 0
					for _, e := range wd.trace {
						switch e.K {
						case 'E':
							startedAll++
						case 'P':
							cls = "panicked"
						case 'V':
							cls = "panic-recovered-by-a-handler"
						}
					}
					if cls != "panicked" && startedAll < n {
						cls = "stopped-by-write-or-cancel"
					}
					if hasNext {
						cls += "+Next"
					}
					l.Class(cls)
					if hasNext && hasEffect && (ji+c)%50021 == 0 {
						l.Sample(map[string]interface{}{"stack": j.s.String(), "handlers": fmt.Sprint(prog), "trace": c03TraceString(wd.trace)})
					}
				}
			}
		})
	}
	r.Bounds["plans"] = labels
}

func c03Replay(raw json.RawMessage) (bool, string) {
	var c c03Case
	if err := json.Unmarshal(raw, &c); err != nil {
		return false, err.Error()
	}
	mask := 0
	for i, b := range c.Prog {
		if b.Term == 1 || b.Term == 2 {
			mask |= 1 << i
		}
	}
	if c.Shape.n() != len(c.Prog) {
		return false, "malformed case"
	}
	w := c03Build(c.Shape, mask)
	bad, _ := c03Judge(w, c.Shape, c.Prog)
	return bad != "", bad
}

func init() {
	core.Register(&core.Check{ID: "C03", Run: c03Run, Replay: c03Replay})
}
