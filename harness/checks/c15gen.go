package checks

import (
	"errors"
	"net/http"
)

// The function that raises the panics of C15 lives in "generated code": the //line directive below makes
// its frames name a source file that does not exist, as frames of generated code or of a binary
// deployed without its sources do (Recovery's development page reads source files for its stack trace).

//line /nonexistent/c15_generated.go:1
func c15PanicWith(value string) {
	switch value {
	case "string":
		panic("MARK-string")
	case "error":
		panic(errors.New("MARK-error"))
	case "runtime":
		var m map[string]int
		m["x"] = 1
	case "struct":
		panic(c15Struct{"MARK-struct"})
	case "abort":
		panic(http.ErrAbortHandler)
	case "nil-error-pointer":
		var e *c15NilErr
		panic(error(e))
	case "panicking-stringer":
		panic(c15BadStringer{})
	}
}

