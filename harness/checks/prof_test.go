package checks

import (
	"testing"

	"github.com/flamego/flamego/internal/route"
	"github.com/flamego/flamego/verifharness/ref"
)

func BenchmarkC01Eval(b *testing.B) {
	p, _ := route.NewParser()
	cat, _ := mkCatalogue(p, []string{"/a/{p2}", "/{m1: **}/b", "/{s1: /[ab]+/}/?b"})
	tree, trie, _, _ := c01Build(cat)
	env := &c01Env{m: ref.NewMatcher()}
	paths := pathsOver([]string{"a", "b", "c", "", "ab"}, 3, nil)
	b.ResetTimer()
	for i := 0; i < b.N; i++ {
		c01Eval(env, tree, trie, paths[i%len(paths)])
	}
}
