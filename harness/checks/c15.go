package checks

import (
	"context"
	"encoding/json"
	"fmt"
	"io"
	"net/http"
	"reflect"
	"strings"
	"time"

	"github.com/flamego/flamego"
	"github.com/flamego/flamego/verifharness/core"
)

// ---- C15: Recovery contains every panic and leaves the application serving (engine E) ----

type c15Unmapped struct{ x int }

type c15Struct struct{ M string }

// c15NilErr: a typed nil pointer inside an error interface is a non-nil panic value whose Error
// method itself panics when called directly.
type c15NilErr struct{ msg string }

func (e *c15NilErr) Error() string { return e.msg }

type c15BadStringer struct{}

func (c15BadStringer) String() string { panic("String() of the panic value panics") }

type c15Config struct {
	N        int    `json:"stack_size"`
	R        int    `json:"recovery_position"`
	P        int    `json:"panic_position"`
	Phase    string `json:"phase"`        // before-write | after-status | after-body | after-next | after-next-unanswered (the rest of the chain ran to its end and wrote nothing) | unresolved-dependency | ...
	Between  int    `json:"between_mask"` // bit i set: the i-th handler between Recovery and the panic calls Next() itself
	Value    string `json:"panic_value"`  // string | error | runtime | struct | abort
	Style    string `json:"registration"` // use | route | group
	Env      string `json:"env"`
	BuiltIn  string `json:"env_while_building,omitempty"`                                // when set, the stack is built in this environment and Env is set afterwards
	Sibling  bool   `json:"middleware_list_shared_with_a_sibling_application,omitempty"` // the handlers before Recovery come from one slice with spare capacity that is handed to Handlers() of this application and, afterwards, of a second one that then adds middleware of its own
	FastDep  bool   `json:"unresolvable_handler_has_its_own_fast_invoker,omitempty"`
	CustomRH bool   `json:"custom_return_handler_mapped,omitempty"`             // the application maps a ReturnHandler of its own (it renders whatever handlers return as a 200 envelope); Recovery's 500 is not a handler's return value
	Reconf   bool   `json:"middleware_replaced_after_first_requests,omitempty"` // the application first runs with as many do-nothing middleware, serves both routes, and only then gets the real stack through Handlers()
}

func (c c15Config) marker() string {
	switch c.Phase {
	case "unresolved-dependency":
		return "c15Unmapped"
	case "status-code-the-underlying-writer-refuses":
		return "invalid WriteHeader code" // the underlying writer's own panic value, whatever kind is configured
	}
	switch c.Value {
	case "string":
		return "MARK-string"
	case "error":
		return "MARK-error"
	case "runtime":
		return "assignment to entry in nil map"
	case "struct":
		return "MARK-struct"
	case "abort":
		return "abort Handler"
	case "nil-error-pointer", "panicking-stringer":
		return "PANIC: "
	}
	return "?"
}

func (c c15Config) doPanic() { c15PanicWith(c.Value) }

func c15OtherKind(v string) string {
	kinds := []string{"string", "error", "runtime", "struct", "abort", "nil-error-pointer", "panicking-stringer"}
	for i, k := range kinds {
		if k == v {
			return kinds[(i+1)%len(kinds)]
		}
	}
	return "error"
}

// c15FastDep is a handler type with a fast invoker of its own whose only parameter cannot be resolved.
type c15FastDep func(*c15Unmapped)

func (f c15FastDep) Invoke(args []interface{}) ([]reflect.Value, error) {
	f(args[0].(*c15Unmapped))
	return nil, nil
}

type c15World struct {
	f      *flamego.Flame
	events []string
}

func c15Build(c c15Config) *c15World {
	w := &c15World{f: flamego.NewWithLogger(io.Discard)}
	if c.CustomRH {
		w.f.Map(flamego.ReturnHandler(func(ctx flamego.Context, vals []reflect.Value) {
			ctx.ResponseWriter().WriteHeader(200)
			_, _ = ctx.ResponseWriter().Write([]byte(fmt.Sprintf(`{"data":%v}`, vals[0].Interface())))
		}))
	}
	mk := func(i int) flamego.Handler {
		switch {
		case i == c.R:
			return flamego.Recovery()
		case i < c.R:
			return func(ctx flamego.Context) {
				w.events = append(w.events, fmt.Sprintf("outer%d-enter", i))
				ctx.Next()
				w.events = append(w.events, fmt.Sprintf("outer%d-after-next", i))
			}
		case i < c.P:
			if c.Between&(1<<(i-c.R-1)) != 0 {
				return func(ctx flamego.Context) {
					w.events = append(w.events, fmt.Sprintf("between%d", i))
					ctx.Next()
				}
			}
			return func(ctx flamego.Context) { w.events = append(w.events, fmt.Sprintf("between%d", i)) }
		case i == c.P:
			if c.Phase == "unresolved-dependency" && c.FastDep {
				return c15FastDep(func(u *c15Unmapped) { w.events = append(w.events, "BODY-RAN-WITHOUT-DEPENDENCY") })
			}
			if c.Phase == "unresolved-dependency" {
				// (the unresolvable parameter comes first: resolution fails before the other one is looked at)
				return func(u *c15Unmapped, ctx flamego.Context) { w.events = append(w.events, "BODY-RAN-WITHOUT-DEPENDENCY") }
			}
			return func(ctx flamego.Context) {
				if ctx.Request().URL.Path != "/p" {
					return // the normal request passes through
				}
				w.events = append(w.events, "panicker")
				switch c.Phase {
				case "after-status":
					ctx.ResponseWriter().WriteHeader(201)
				case "after-status-204":
					ctx.ResponseWriter().WriteHeader(204) // statuses that allow no body
				case "after-status-304":
					ctx.ResponseWriter().WriteHeader(304)
				case "after-status-103":
					ctx.ResponseWriter().WriteHeader(103)
				case "after-body":
					_, _ = ctx.ResponseWriter().Write([]byte("partial"))
				case "after-next", "after-next-unanswered":
					ctx.Next()
				case "after-failed-hijack-and-push":
					// capabilities the underlying writer does not have: the calls fail and send nothing
					if hj, ok := ctx.ResponseWriter().(http.Hijacker); ok {
						_, _, _ = hj.Hijack()
					}
					if ps, ok := ctx.ResponseWriter().(http.Pusher); ok {
						_ = ps.Push("/other", nil)
					}
				case "deep-recursion":
					// the panic is raised 400 calls further down the stack
					var down func(n int)
					down = func(n int) {
						if n == 0 {
							if k := ctx.Request().Header.Get("X-Kind"); k != "" {
								c15PanicWith(k)
							}
							c.doPanic()
						}
						down(n - 1)
					}
					down(400)
				case "after-flush":
					ctx.ResponseWriter().Flush() // commits the implicit 200
				case "inside-a-before-function":
					// the panic is raised by a function the handler registered to run before the first write, while
					// the handler writes: the status has not reached the underlying writer, so the client gets 500
					ctx.ResponseWriter().Before(func(flamego.ResponseWriter) {
						w.events = append(w.events, "before-function")
						if k := ctx.Request().Header.Get("X-Kind"); k != "" {
							c15PanicWith(k)
						}
						c.doPanic()
					})
					_, _ = ctx.ResponseWriter().Write([]byte("partial"))
				case "inside-two-before-functions":
					// two functions registered to run before the first write, both panic: containing the first must
					// not set the second one off outside Recovery's reach
					for k := 0; k < 2; k++ {
						ctx.ResponseWriter().Before(func(flamego.ResponseWriter) {
							w.events = append(w.events, "before-function")
							if k := ctx.Request().Header.Get("X-Kind"); k != "" {
								c15PanicWith(k)
							}
							c.doPanic()
						})
					}
					_, _ = ctx.ResponseWriter().Write([]byte("partial"))
				case "status-code-the-underlying-writer-refuses":
					// the panic is raised by the underlying writer (as net/http's does for a code outside 100..999)
					// in the middle of the handler's WriteHeader: no status has been sent
					ctx.ResponseWriter().WriteHeader(1000)
				case "after-cancelling-the-request-context":
					// the request goes on under a context of the handler's making, which is cancelled by the time
					// of the panic (a deadline that ran out): no status has been sent, so the client gets 500
					cc, cancel := context.WithCancel(ctx.Request().Context())
					ctx.Request().Request = ctx.Request().Request.WithContext(cc)
					cancel()
				}
				if k := ctx.Request().Header.Get("X-Kind"); k != "" {
					c15PanicWith(k) // this request panics with another kind of value than the configured one
				}
				c.doPanic()
			}
		default:
			return func(ctx flamego.Context) {
				w.events = append(w.events, fmt.Sprintf("tail%d", i))
				if c.Phase == "after-next-unanswered" && ctx.Request().URL.Path == "/p" {
					return // nobody answers this request: the chain runs to its end with nothing written
				}
				_, _ = ctx.ResponseWriter().Write([]byte("ok"))
			}
		}
	}
	var hs []flamego.Handler
	for i := 0; i < c.N; i++ {
		hs = append(hs, mk(i))
	}
	final := func(ctx flamego.Context) {
		w.events = append(w.events, "final")
		if c.Phase == "after-next-unanswered" && ctx.Request().URL.Path == "/p" {
			return
		}
		if !ctx.ResponseWriter().Written() {
			_, _ = ctx.ResponseWriter().Write([]byte("final"))
		}
	}
	switch c.Style {
	case "use":
		if c.Reconf {
			for range hs {
				w.f.Use(func() {})
			}
		} else if c.Sibling {
			common := make([]flamego.Handler, c.R, c.R+4)
			copy(common, hs[:c.R])
			w.f.Handlers(common...)
			w.f.Use(hs[c.R:]...)
			sib := flamego.NewWithLogger(io.Discard)
			sib.Handlers(common...)
			sib.Use(func() {}, func() {}, func() {})
			common = append(common, func() {}, func() {})
			_ = common
		} else {
			w.f.Use(hs...)
		}
		w.f.Get("/p", final)
		if c.Phase != "unresolved-dependency" {
			w.f.Get("/n", final)
		}
	case "route":
		w.f.Get("/p", append(hs, final)...)
		if c.Phase != "unresolved-dependency" {
			w.f.Get("/n", append(append([]flamego.Handler{}, hs...), final)...)
		}
	case "use-action", "route-action":
		// the panicking handler is the application's final Action; the handlers before it are application
		// middleware or the route's own handlers (Recovery may then be the last entry of the handler list)
		routes := []string{"/p"}
		if c.Phase != "unresolved-dependency" {
			routes = append(routes, "/n")
		}
		if c.Style == "use-action" {
			w.f.Use(hs[:c.P]...)
			for _, rt := range routes {
				w.f.Get(rt)
			}
		} else {
			for _, rt := range routes {
				w.f.Get(rt, append([]flamego.Handler{}, hs[:c.P]...)...)
			}
		}
		w.f.Action(hs[c.P])
	case "group-in-group":
		// Recovery and everything behind it are handlers of an outer group; the routes sit in a nested group that
		// has no handlers of its own
		w.f.Use(hs[:c.R]...)
		w.f.Group("/", func() {
			w.f.Group("", func() {
				w.f.Get("p", final)
				if c.Phase != "unresolved-dependency" {
					w.f.Get("n", final)
				}
			})
		}, hs[c.R:]...)
	case "group":
		w.f.Use(hs[:c.R+1]...)
		w.f.Group("/", func() {
			w.f.Get("p", final)
			if c.Phase != "unresolved-dependency" {
				w.f.Get("n", final)
			}
		}, hs[c.R+1:]...)
	}
	if c.Reconf && c.Style == "use" {
		// serve both routes once with the do-nothing stack, then install the real one
		for _, p := range []string{"/p", "/n"} {
			func() {
				defer func() { _ = recover() }()
				w.f.ServeHTTP(&c01Spy{hdr: http.Header{}}, newReq("GET", p))
			}()
		}
		w.f.Handlers(hs...)
		w.events = nil
	}
	if c.Phase == "unresolved-dependency" {
		// the normal route has the same stack minus the unresolvable handler
		// ... and, in place of the unresolvable handler, a handler of the SAME function type whose dependency a
		// handler just before it maps for the request: what failed to resolve for one request resolves for another
		var ok []flamego.Handler
		for i, h := range hs {
			if i != c.P {
				ok = append(ok, h)
				continue
			}
			if !c.FastDep {
				ok = append(ok,
					func(ctx flamego.Context) { ctx.Map(&c15Unmapped{}) },
					func(u *c15Unmapped, ctx flamego.Context) {
						w.events = append(w.events, fmt.Sprintf("dependency-resolved:%v", u != nil))
					})
			}
		}
		switch c.Style {
		case "use":
			// application middleware is shared by all routes: no normal route exists in this style
		case "route":
			w.f.Get("/n", append(ok, final)...)
		case "group", "group-in-group":
			// group handlers are shared as well
		}
	}
	return w
}

type c15Resp struct {
	status  int
	body    string
	ctype   string
	escaped interface{}
	events  string
}

func (w *c15World) serve(path string, kind ...string) c15Resp {
	w.events = nil
	// (a writer as strict about status codes as net/http's)
	spy := &c01Spy{hdr: http.Header{}, strict: true}
	var esc interface{}
	req := newReq("GET", path)
	if len(kind) > 0 {
		req.Header.Set("X-Kind", kind[0])
	}
	func() {
		defer func() { esc = recover() }()
		w.f.ServeHTTP(spy, req)
	}()
	return c15Resp{spy.code, spy.body.String(), spy.hdr.Get("Content-Type"), esc, strings.Join(w.events, ",")}
}

func (c c15Config) hasNormalRoute() bool {
	return !(c.Phase == "unresolved-dependency" && c.Style != "route")
}

// c15CheckPanic judges the response of the panicking request.
func c15CheckPanic(c c15Config, rs c15Resp) (bad, kind string) {
	if rs.escaped != nil {
		return fmt.Sprintf("panic escaped ServeHTTP: %v", rs.escaped), "escaped"
	}
	wantStatus := 500
	switch c.Phase {
	case "after-status":
		wantStatus = 201
	case "after-status-204":
		wantStatus = 204
	case "after-status-304":
		wantStatus = 304
	case "after-status-103":
		wantStatus = 103
	case "after-body", "after-next", "after-flush":
		wantStatus = 200
	}
	if c.Phase == "after-next" && strings.HasSuffix(c.Style, "-action") {
		wantStatus = 500 // nothing follows the Action: its Next() runs nothing, so nothing has been written
	}
	if rs.status != wantStatus {
		return fmt.Sprintf("status %d, expected %d (500 iff no status had been sent before the panic)", rs.status, wantStatus), "status"
	}
	has := strings.Contains(rs.body, c.marker())
	if c.Env != "development" && has {
		return fmt.Sprintf("panic detail %q leaked into the body in %s mode", c.marker(), c.Env), "detail-leak"
	}
	if c.Env == "development" && !has {
		return fmt.Sprintf("panic detail %q missing from the body in development mode (body %q)", c.marker(), trunc(rs.body)), "detail-missing"
	}
	for i := 0; i < c.R; i++ {
		if !strings.Contains(rs.events, fmt.Sprintf("outer%d-after-next", i)) {
			return fmt.Sprintf("middleware %d before Recovery did not complete its code after Next(); events: %s", i, rs.events), "outer-not-completed"
		}
	}
	if strings.Contains(rs.events, "BODY-RAN-WITHOUT-DEPENDENCY") {
		return "handler body ran although a dependency could not be resolved", "body-ran"
	}
	// Recovery has answered: that is a response written, so no handler behind the panicking one starts any more
	// (in the phases in which the panic comes before the handler's own Next())
	if c.Phase != "after-next" && c.Phase != "after-next-unanswered" && c.Phase != "unresolved-dependency" {
		if i := strings.Index(rs.events, "panicker"); i >= 0 && (strings.Contains(rs.events[i:], "tail") || strings.Contains(rs.events[i:], "final")) {
			return fmt.Sprintf("handlers behind the panicking one ran after Recovery had answered; events: %s", rs.events), "chain-went-on-after-the-answer"
		}
	}
	return "", ""
}

type c15Case struct {
	Config c15Config `json:"config"`
	Seq    string    `json:"request_sequence"` // over P (panicking) and N (normal)
}

func c15Judge(c c15Config, seq string) (bad, kind string) {
	build := func() *c15World {
		if c.BuiltIn != "" {
			flamego.SetEnv(flamego.EnvType(c.BuiltIn))
			defer flamego.SetEnv(flamego.EnvType(c.Env))
		}
		return c15Build(c)
	}
	flamego.SetEnv(flamego.EnvType(c.Env))
	w := build()
	flamego.SetEnv(flamego.EnvType(c.Env))
	// values SetEnv is documented to ignore: the environment stays what it was
	flamego.SetEnv("staging")
	flamego.SetEnv("")
	flamego.SetEnv("Production")
	var fresh c15Resp
	if strings.Contains(seq, "N") {
		fresh = build().serve("/n")
		if fresh.escaped != nil {
			return "", "" // the normal route itself cannot be served: configuration not applicable
		}
	}
	for i, ch := range seq {
		if ch == 'P' {
			rs := w.serve("/p")
			if b, k := c15CheckPanic(c, rs); b != "" {
				return fmt.Sprintf("request %d (panicking): %s", i+1, b), k
			}
		} else if ch == 'Q' {
			// a panicking request whose value is of another kind than the previous ones
			c2 := c
			c2.Value = c15OtherKind(c.Value)
			rs := w.serve("/p", c2.Value)
			if b, k := c15CheckPanic(c2, rs); b != "" {
				return fmt.Sprintf("request %d (panicking with a %s value after %q): %s", i+1, c2.Value, seq[:i], b), k + "/after-other-kind"
			}
		} else {
			rs := w.serve("/n")
			if rs.escaped != nil || rs.status >= 500 {
				return fmt.Sprintf("request %d (normal, no handler of it panics) after %q: status %d body %q escaped %v events %s", i+1, seq[:i], rs.status, trunc(rs.body), rs.escaped, rs.events), "normal-request-not-served"
			}
			if rs != fresh {
				return fmt.Sprintf("request %d (normal) after %q differs from the same request on a fresh instance: status %d body %q events %s vs status %d body %q events %s",
					i+1, seq[:i], rs.status, trunc(rs.body), rs.events, fresh.status, trunc(fresh.body), fresh.events), "later-request-affected"
			}
		}
	}
	return "", ""
}

func c15Configs(thorough bool) []c15Config {
	var out []c15Config
	maxN := 4
	if thorough {
		maxN = 5
	}
	phases := []string{"before-write", "after-status", "after-body", "after-next", "unresolved-dependency", "after-failed-hijack-and-push", "after-flush", "deep-recursion", "after-next-unanswered", "after-cancelling-the-request-context", "inside-a-before-function", "inside-two-before-functions", "status-code-the-underlying-writer-refuses", "after-status-204", "after-status-304", "after-status-103"}
	values := []string{"string", "error", "runtime", "struct", "abort", "nil-error-pointer", "panicking-stringer"}
	styles := []string{"use", "route", "group", "use-action", "route-action", "group-in-group"}
	for n := 2; n <= maxN; n++ {
		for r := 0; r < n-1; r++ {
			for p := r + 1; p < n; p++ {
				for _, ph := range phases {
					for bm := 0; bm < 1<<(p-r-1); bm++ {
						for _, v := range values {
							if ph == "unresolved-dependency" && v != "string" {
								continue
							}
							if (ph == "after-failed-hijack-and-push" || ph == "after-flush" || ph == "deep-recursion" || ph == "after-next-unanswered" || ph == "after-cancelling-the-request-context" || ph == "inside-a-before-function" || ph == "inside-two-before-functions" || ph == "status-code-the-underlying-writer-refuses" || strings.HasPrefix(ph, "after-status-")) && v != "string" && v != "runtime" && !thorough {
								continue
							}
							for _, st := range styles {
								if !thorough && n == 4 && (st == "group" || st == "group-in-group") && v != "string" {
									continue
								}
								if strings.HasSuffix(st, "-action") && (p != n-1 || (!thorough && n == 4 && v != "string" && v != "struct")) {
									continue // the action is the last position of the stack
								}
								out = append(out, c15Config{N: n, R: r, P: p, Phase: ph, Between: bm, Value: v, Style: st})
								if st == "use" && (v == "string" || v == "struct") {
									out = append(out, c15Config{N: n, R: r, P: p, Phase: ph, Between: bm, Value: v, Style: st, Reconf: true})
								}
								if ph == "unresolved-dependency" {
									out = append(out, c15Config{N: n, R: r, P: p, Phase: ph, Between: bm, Value: v, Style: st, FastDep: true})
								}
								if st == "use" && r >= 1 && (v == "string" || v == "struct") && (thorough || n <= 3) {
									out = append(out, c15Config{N: n, R: r, P: p, Phase: ph, Between: bm, Value: v, Style: st, Sibling: true})
								}
								if (st == "use" || st == "route") && (v == "string" || v == "error") && (thorough || n <= 3) {
									out = append(out, c15Config{N: n, R: r, P: p, Phase: ph, Between: bm, Value: v, Style: st, CustomRH: true})
								}
							}
						}
					}
				}
			}
		}
	}
	return out
}

func c15Run(r *core.Run) {
	r.SetBudget(75 * time.Second)
	if r.Thorough() {
		r.SetBudget(20 * time.Minute)
	}
	cfgs := c15Configs(r.Thorough())
	// thorough: every request sequence of up to three requests over {panicking, normal, panicking with the other kind}
	var seqs []string
	for _, a := range []string{"P", "N", "Q"} {
		seqs = append(seqs, a)
		for _, b := range []string{"P", "N", "Q"} {
			seqs = append(seqs, a+b)
			for _, c := range []string{"P", "N", "Q"} {
				seqs = append(seqs, a+b+c)
			}
		}
	}
	{
		var keep []string
		for _, q := range seqs {
			if strings.ContainsAny(q, "PQ") {
				keep = append(keep, q)
			}
		}
		seqs = keep
	}
	if !r.Thorough() {
		seqs = []string{"P", "PN", "PPN", "NPN", "PNP", "PQ", "QPQ", "PPQ"}
	}
	r.Rule = "engine E: stacks of 2..4 (thorough 5) handlers with Recovery at every position, logging middleware before it, pass-through handlers (with and without their own Next()) between it and the panicking handler at every later position; panic phase {before any write, after a status, after body bytes, after Next() returned, unresolved dependency, after a failed Hijack and Push, after Flush, 400 calls down the stack} x value {string, error, runtime error, struct, http.ErrAbortHandler, typed-nil error pointer, value whose String() panics} x registration style {application middleware, route handlers, middleware+group, handlers of an outer group around a handler-less nested group, middleware or route handlers with the panicking handler as the final Action} x {default, application-mapped ReturnHandler} x environment {development, production, test} x request sequences over {panicking, normal}; oracle: nothing escapes, status 500 iff nothing had been sent, detail in the body iff development, outer middleware completes, no handler behind the panicking one runs once Recovery has answered, normal requests equal a fresh instance; non-trivial = sequence with >=2 requests or a panic after something was written"
	r.Bounds["configs"] = len(cfgs)
	r.Bounds["sequences"] = seqs
	r.Assumptions = []string{"panic(nil) is outside the statement ('any non-nil value')", "environments are process-global: the three environments run as sequential phases"}
	for _, env := range []string{"development", "production", "test"} {
		env := env
		flamego.SetEnv(flamego.EnvType(env))
		r.Parallel(func(w, nw int, l *core.Local) {
			for ci := w; ci < len(cfgs); ci += nw {
				if r.Expired() {
					return
				}
				c := cfgs[ci]
				c.Env = env
				l.States++
				for _, sq := range seqs {
					if strings.Contains(sq, "N") && !c.hasNormalRoute() {
						continue
					}
					if strings.Contains(sq, "Q") && c.Phase == "unresolved-dependency" {
						continue
					}
					l.Evals++
					l.Transitions += int64(len(sq))
					l.Traces++
					if len(sq) > 1 || c.Phase != "before-write" {
						l.NonTrivial++
					}
					bad, kind := c15Judge(c, sq)
					if bad != "" {
						l.Class("mismatch")
						l.Violate(kind+"/"+c.Phase+"/"+c.Value+"/"+env, bad+fmt.Sprintf(" [config %+v sequence %s]", c, sq), c15Case{c, sq})
						continue
					}
					l.Class("contained:" + c.Phase + ":" + env)
					if (ci+len(sq))%1201 == 0 {
						l.Sample(c15Case{c, sq})
					}
				}
			}
		})
	}
	// the environment is process-global, so configurations that are BUILT in one environment and SERVE
	// in another run one at a time
	{
		l := core.NewLocal()
		other := map[string]string{"development": "production", "production": "development", "test": "development"}
		for _, env := range []string{"development", "production", "test"} {
			for ci := 1; ci < len(cfgs); ci += 3 {
				if ci%64 == 1 && r.Expired() {
					break
				}
				c := cfgs[ci]
				c.Env, c.BuiltIn = env, other[env]
				l.States++
				for _, sq := range []string{"P", "PN"} {
					if strings.Contains(sq, "N") && !c.hasNormalRoute() {
						continue
					}
					l.Evals++
					l.Transitions += int64(len(sq))
					l.Traces++
					l.NonTrivial++
					bad, kind := c15Judge(c, sq)
					if bad != "" {
						l.Class("mismatch")
						l.Violate(kind+"/built-in-"+c.BuiltIn+"/serving-in-"+env, bad+fmt.Sprintf(" [config %+v sequence %s]", c, sq), c15Case{c, sq})
						continue
					}
					l.Class("contained:env-switched-after-setup:" + env)
				}
			}
		}
		r.Merge(l)
	}
	flamego.SetEnv(flamego.EnvTypeDev)
}

func c15Replay(raw json.RawMessage) (bool, string) {
	var c c15Case
	if err := json.Unmarshal(raw, &c); err != nil {
		return false, err.Error()
	}
	bad, _ := c15Judge(c.Config, c.Seq)
	return bad != "", bad
}

func init() {
	core.Register(&core.Check{ID: "C15", Run: c15Run, Replay: c15Replay})
}
