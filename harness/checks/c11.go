package checks

import (
	"encoding/json"
	"fmt"
	"io"
	"net/http"
	"strings"
	"time"

	"github.com/flamego/flamego"
	"github.com/flamego/flamego/verifharness/core"
)

// ---- C11: Group/Combo/Routes/Any/AutoHead equal their flat expansion (engine E over programs) ----

type c11Node struct {
	Kind     string    `json:"kind"` // group | get | post | routes-comma | routes-multi | any | combo | combo-spare | combo-dup | combo-toggle-head | autohead-on | autohead-off
	Path     string    `json:"path,omitempty"`
	NH       int       `json:"handlers,omitempty"`
	Children []c11Node `json:"children,omitempty"`
}

func (n c11Node) String() string {
	if n.Kind == "try" {
		var cs []string
		for _, c := range n.Children {
			cs = append(cs, c.String())
		}
		return fmt.Sprintf("recover{%s}", strings.Join(cs, "; "))
	}
	if n.Kind == "group" {
		var cs []string
		for _, c := range n.Children {
			cs = append(cs, c.String())
		}
		return fmt.Sprintf("Group(%q,h%d){%s}", n.Path, n.NH, strings.Join(cs, "; "))
	}
	if strings.HasPrefix(n.Kind, "autohead") {
		return n.Kind
	}
	return fmt.Sprintf("%s(%q,h%d)", n.Kind, n.Path, n.NH)
}

type c11Flat struct {
	Method string
	Path   string
	IDs    []int
	Hdr    bool // the registration carries the header constraint X-K: v
	// Try > 0: the registration belongs to the Try-th leaf whose registration panic the program recovers: the
	// flat list registers that leaf's entries in order and drops the rest of the leaf at the first refusal
	Try int
}

type c11World struct {
	f     *flamego.Flame
	trace []int
	par   map[string]string
	// tryPan[k]: the k-th recovered leaf (1-based) was refused
	tryPan map[int]bool
}

// c11RegisterFlat registers the flat list on w: a refusal of an ordinary entry ends it (pan), a refusal inside
// a recovered leaf drops the rest of that leaf only.
func c11RegisterFlat(w *c11World, flat []c11Flat) (pan interface{}) {
	w.tryPan = map[int]bool{}
	one := func(fl c11Flat) (pv interface{}) {
		defer func() { pv = recover() }()
		rt := w.f.Route(fl.Method, fl.Path, w.hs(fl.IDs))
		if fl.Hdr {
			rt.Headers("X-K", "v")
		}
		return nil
	}
	for _, fl := range flat {
		if fl.Try > 0 && w.tryPan[fl.Try] {
			continue
		}
		if pv := one(fl); pv != nil {
			if fl.Try == 0 {
				return pv
			}
			w.tryPan[fl.Try] = true
		}
	}
	return nil
}

func (w *c11World) h(id int) flamego.Handler {
	return func(c flamego.Context) {
		w.trace = append(w.trace, id)
		w.par = map[string]string{}
		for k, v := range c.Params() {
			w.par[k] = v
		}
	}
}

func (w *c11World) hs(ids []int) []flamego.Handler {
	out := make([]flamego.Handler, len(ids))
	for i, id := range ids {
		out[i] = w.h(id)
	}
	return out
}

// c11Exec runs the program through the real grouping API and, in parallel, flattens it by the
// statement's rule. Returns the flat list; rejectFlat=true when the flattener itself knows the
// program must be refused (Combo with the same method twice).
func c11Exec(w *c11World, prog []c11Node) (flat []c11Flat, mustReject bool, ambiguousHead bool) {
	nextID := 0
	autoHead := false
	ids := func(n int) []int {
		out := make([]int, n)
		for i := range out {
			out[i] = nextID
			nextID++
		}
		return out
	}
	tries := 0
	w.tryPan = map[int]bool{}
	var walk func(nodes []c11Node, prefix string, outer []int)
	walk = func(nodes []c11Node, prefix string, outer []int) {
		for _, n := range nodes {
			switch n.Kind {
			case "try":
				// the application recovers from a refusal of this leaf and goes on registering
				tries++
				k, from := tries, len(flat)
				func() {
					defer func() {
						if recover() != nil {
							w.tryPan[k] = true
						}
					}()
					walk(n.Children, prefix, outer)
				}()
				for i := from; i < len(flat); i++ {
					flat[i].Try = k
				}
			case "autohead-on":
				autoHead = true
				w.f.AutoHead(true)
			case "autohead-off":
				autoHead = false
				w.f.AutoHead(false)
			case "group":
				g := ids(n.NH)
				all := append(append([]int{}, outer...), g...)
				w.f.Group(n.Path, func() { walk(n.Children, prefix+n.Path, all) }, w.hs(g)...)
			case "get":
				own := ids(n.NH)
				all := append(append([]int{}, outer...), own...)
				flat = append(flat, c11Flat{Method: "GET", Path: prefix + n.Path, IDs: all})
				if autoHead {
					flat = append(flat, c11Flat{Method: "HEAD", Path: prefix + n.Path, IDs: all})
				}
				w.f.Get(n.Path, w.hs(own)...)
			case "get-headers":
				// Get(...).Headers(...): the constraint belongs to the GET registration the call returns; the
				// automatic HEAD registration is a registration of its own (flat: Head(...) without constraints)
				own := ids(n.NH)
				all := append(append([]int{}, outer...), own...)
				flat = append(flat, c11Flat{Method: "GET", Path: prefix + n.Path, IDs: all, Hdr: true})
				if autoHead {
					flat = append(flat, c11Flat{Method: "HEAD", Path: prefix + n.Path, IDs: all})
				}
				w.f.Get(n.Path, w.hs(own)...).Headers("X-K", "v")
			case "routes-headers":
				// Routes("GET,POST").Headers(...): the constraint belongs to every method of the call
				own := ids(n.NH)
				all := append(append([]int{}, outer...), own...)
				flat = append(flat, c11Flat{Method: "GET", Path: prefix + n.Path, IDs: all, Hdr: true}, c11Flat{Method: "POST", Path: prefix + n.Path, IDs: all, Hdr: true})
				if autoHead {
					ambiguousHead = true
				}
				w.f.Routes(n.Path, "GET,POST", w.hs(own)...).Headers("X-K", "v")
			case "post":
				own := ids(n.NH)
				flat = append(flat, c11Flat{Method: "POST", Path: prefix + n.Path, IDs: append(append([]int{}, outer...), own...)})
				w.f.Post(n.Path, w.hs(own)...)
			case "routes-all9":
				// every method in one comma list
				own := ids(n.NH)
				all := append(append([]int{}, outer...), own...)
				for _, mm := range c08KnownMethods {
					flat = append(flat, c11Flat{Method: mm, Path: prefix + n.Path, IDs: all})
				}
				w.f.Routes(n.Path, strings.Join(c08KnownMethods, ","), w.hs(own)...)
			case "routes-unknown-in-the-middle":
				// a method list with a name that is no HTTP method behind two that are (inside recover{...} only):
				// GET and POST are registered, then the call is refused; PUT never is
				own := ids(n.NH)
				all := append(append([]int{}, outer...), own...)
				for _, mm := range []string{"GET", "POST", "FETCH", "PUT"} {
					flat = append(flat, c11Flat{Method: mm, Path: prefix + n.Path, IDs: all})
				}
				w.f.Routes(n.Path, "GET,POST,FETCH,PUT", w.hs(own)...)
			case "routes-star":
				// the wild card as the method list of Routes, and as a later method string: every method, as Any
				own := ids(n.NH)
				all := append(append([]int{}, outer...), own...)
				for _, mm := range c08KnownMethods {
					flat = append(flat, c11Flat{Method: mm, Path: prefix + n.Path, IDs: all})
				}
				if n.NH%2 == 1 {
					w.f.Routes(n.Path, "*", w.hs(own)...)
				} else {
					w.f.Routes(n.Path, " * ", w.hs(own)...)
				}
			case "routes-mixedcase":
				// method names in lower and mixed case, in a comma list and as a separate string: the methods they name
				own := ids(n.NH)
				all := append(append([]int{}, outer...), own...)
				for _, mm := range []string{"GET", "POST", "PUT"} {
					flat = append(flat, c11Flat{Method: mm, Path: prefix + n.Path, IDs: all})
				}
				if autoHead {
					ambiguousHead = true
				}
				w.f.Routes(n.Path, "get, Post", append([]flamego.Handler{"put"}, w.hs(own)...)...)
			case "routes-multi3":
				// three method names as separate leading strings
				own := ids(n.NH)
				all := append(append([]int{}, outer...), own...)
				for _, mm := range []string{"GET", "POST", "PUT"} {
					flat = append(flat, c11Flat{Method: mm, Path: prefix + n.Path, IDs: all})
				}
				if autoHead {
					ambiguousHead = true
				}
				w.f.Routes(n.Path, "GET", append([]flamego.Handler{"POST", "PUT"}, w.hs(own)...)...)
			case "routes-comma", "routes-multi":
				own := ids(n.NH)
				all := append(append([]int{}, outer...), own...)
				flat = append(flat, c11Flat{Method: "GET", Path: prefix + n.Path, IDs: all}, c11Flat{Method: "POST", Path: prefix + n.Path, IDs: all})
				if autoHead {
					ambiguousHead = true
				}
				if n.Kind == "routes-comma" {
					w.f.Routes(n.Path, "GET, POST", w.hs(own)...)
				} else {
					args := append([]flamego.Handler{"POST"}, w.hs(own)...)
					w.f.Routes(n.Path, "GET", args...)
				}
			case "any":
				own := ids(n.NH)
				all := append(append([]int{}, outer...), own...)
				for _, m := range c08KnownMethods {
					flat = append(flat, c11Flat{Method: m, Path: prefix + n.Path, IDs: all})
				}
				w.f.Any(n.Path, w.hs(own)...)
			case "combo-get", "combo-post":
				// one method on a Combo of its own: separate Combo calls for one path are separate registrations
				common := ids(n.NH)
				own := ids(1)
				all := append(append(append([]int{}, outer...), common...), own...)
				if n.Kind == "combo-get" {
					flat = append(flat, c11Flat{Method: "GET", Path: prefix + n.Path, IDs: all})
					if autoHead {
						flat = append(flat, c11Flat{Method: "HEAD", Path: prefix + n.Path, IDs: all})
					}
					w.f.Combo(n.Path, w.hs(common)...).Get(w.hs(own)...)
				} else {
					flat = append(flat, c11Flat{Method: "POST", Path: prefix + n.Path, IDs: all})
					w.f.Combo(n.Path, w.hs(common)...).Post(w.hs(own)...)
				}
			case "combo-across-scopes":
				// one Combo, created inside a group, that is given further methods from a group nested below and
				// after the group has been left: every method call is a registration at the point where it is made
				common := ids(n.NH)
				kh, hh := ids(1), ids(1)
				g, p, u := ids(1), ids(1), ids(1)
				cat := func(parts ...[]int) []int {
					var out []int
					for _, x := range parts {
						out = append(out, x...)
					}
					return out
				}
				flat = append(flat, c11Flat{Method: "GET", Path: prefix + "/v" + n.Path, IDs: cat(outer, kh, common, g)})
				if autoHead {
					flat = append(flat, c11Flat{Method: "HEAD", Path: prefix + "/v" + n.Path, IDs: cat(outer, kh, common, g)})
				}
				flat = append(flat, c11Flat{Method: "POST", Path: prefix + "/v/g" + n.Path, IDs: cat(outer, kh, hh, common, p)},
					c11Flat{Method: "PUT", Path: prefix + n.Path, IDs: cat(outer, common, u)})
				var cb *flamego.ComboRoute
				w.f.Group("/v", func() {
					cb = w.f.Combo(n.Path, w.hs(common)...).Get(w.hs(g)...)
					w.f.Group("/g", func() { cb.Post(w.hs(p)...) }, w.hs(hh)...)
				}, w.hs(kh)...)
				cb.Put(w.hs(u)...)
			case "verbs", "combo-verbs":
				// every method shortcut of the router / of one Combo, each with a handler of its own (HEAD is
				// left to AutoHead and to combo-toggle-head)
				common := []int{}
				if n.Kind == "combo-verbs" {
					common = ids(n.NH)
				}
				base := append(append([]int{}, outer...), common...)
				own := map[string][]int{}
				for _, mm := range c11Verbs {
					own[mm] = ids(1)
					all := append(append([]int{}, base...), own[mm]...)
					flat = append(flat, c11Flat{Method: mm, Path: prefix + n.Path, IDs: all})
					if mm == "GET" && autoHead {
						flat = append(flat, c11Flat{Method: "HEAD", Path: prefix + n.Path, IDs: all})
					}
				}
				if n.Kind == "verbs" {
					w.f.Get(n.Path, w.hs(own["GET"])...)
					w.f.Patch(n.Path, w.hs(own["PATCH"])...)
					w.f.Post(n.Path, w.hs(own["POST"])...)
					w.f.Put(n.Path, w.hs(own["PUT"])...)
					w.f.Delete(n.Path, w.hs(own["DELETE"])...)
					w.f.Options(n.Path, w.hs(own["OPTIONS"])...)
					w.f.Connect(n.Path, w.hs(own["CONNECT"])...)
					w.f.Trace(n.Path, w.hs(own["TRACE"])...)
				} else {
					w.f.Combo(n.Path, w.hs(common)...).Get(w.hs(own["GET"])...).Patch(w.hs(own["PATCH"])...).Post(w.hs(own["POST"])...).Put(w.hs(own["PUT"])...).
						Delete(w.hs(own["DELETE"])...).Options(w.hs(own["OPTIONS"])...).Connect(w.hs(own["CONNECT"])...).Trace(w.hs(own["TRACE"])...)
				}
			case "combo-toggle-head":
				// GET on a Combo while AutoHead is off, AutoHead switched on, then HEAD on the same Combo (the
				// setting the program had is restored afterwards): GET and HEAD with handlers of their own
				common := ids(n.NH)
				g, h := ids(1), ids(1)
				base := append(append([]int{}, outer...), common...)
				flat = append(flat, c11Flat{Method: "GET", Path: prefix + n.Path, IDs: append(append([]int{}, base...), g...)},
					c11Flat{Method: "HEAD", Path: prefix + n.Path, IDs: append(append([]int{}, base...), h...)})
				w.f.AutoHead(false)
				cb := w.f.Combo(n.Path, w.hs(common)...).Get(w.hs(g)...)
				w.f.AutoHead(true)
				cb.Head(w.hs(h)...)
				w.f.AutoHead(autoHead)
			case "combo", "combo-spare", "combo-dup":
				common := ids(n.NH)
				g, p := ids(1), ids(1)
				base := append(append([]int{}, outer...), common...)
				flat = append(flat, c11Flat{Method: "GET", Path: prefix + n.Path, IDs: append(append([]int{}, base...), g...)})
				if autoHead {
					flat = append(flat, c11Flat{Method: "HEAD", Path: prefix + n.Path, IDs: append(append([]int{}, base...), g...)})
				}
				flat = append(flat, c11Flat{Method: "POST", Path: prefix + n.Path, IDs: append(append([]int{}, base...), p...)})
				ch := w.hs(common)
				if n.Kind == "combo-spare" {
					sp := make([]flamego.Handler, len(ch), len(ch)+4)
					copy(sp, ch)
					ch = sp
				}
				cb := w.f.Combo(n.Path, ch...).Get(w.hs(g)...).Post(w.hs(p)...)
				if n.Kind == "combo-dup" {
					mustReject = true
					cb.Get(w.hs(ids(1))...)
				}
			}
		}
	}
	walk(prog, "", nil)
	return
}

func c11Serve(w *c11World, method, path string, hdr ...string) (trace string, par string, status int, pan interface{}) {
	w.trace, w.par = nil, nil
	spy := &c01Spy{hdr: http.Header{}}
	req := newReq(method, path)
	for i := 0; i+1 < len(hdr); i += 2 {
		req.Header.Set(hdr[i], hdr[i+1])
	}
	func() {
		defer func() { pan = recover() }()
		w.f.ServeHTTP(spy, req)
	}()
	return fmt.Sprint(w.trace), fmtParams(w.par), spy.code, pan
}

type c11Case struct {
	Prog   []c11Node `json:"program"`
	Method string    `json:"request_method,omitempty"`
	Path   string    `json:"path,omitempty"`
	Header []string  `json:"request_header_pairs,omitempty"`
}

var c11Methods = []string{"GET", "POST", "HEAD", "PUT", "BREW"}

// c11Verbs: the methods that have a shortcut on the router and on a Combo, in the order the leaves call them
var c11Verbs = []string{"GET", "PATCH", "POST", "PUT", "DELETE", "OPTIONS", "CONNECT", "TRACE"}

func c11Paths(thorough bool) []string {
	if thorough {
		return pathsOver([]string{"g", "a", "v"}, 3, []string{"/", "/g/g/g/a", "/g/v/g/a", "/g/g/g/v", "/g/g/g/g/a", "/g/g/g/g/v", "/g-x", "/g/-x", "/v-x", "/g.a", "/g/.a", "/ga", "/va", "/g-x/a", "/g/-x/a", "/g.v/a", "/ga/a", "/g/a/a", "/o", "/o/t", "/o/", "/o/t/", "/g/o", "/g/o/t", "/o/v"})
	}
	return append(pathsOver([]string{"g", "a", "v"}, 2, nil), "/g/g/a", "/g/v/a", "/v/g/a", "/g/g/v", "/v/v/v", "/", "/g/g/g/a", "/g/g/g/v", "/g/g/g/g/a", "/g/g/g/g/v", "/g-x", "/g/-x", "/v-x", "/g.a", "/g/.a", "/ga", "/va", "/g-x/a", "/g/-x/a", "/g.v/a", "/ga/a", "/g/a/a", "/o", "/o/t", "/o/", "/o/t/", "/g/o", "/g/o/t", "/o/v")
}

// c11Judge executes one program both ways and compares. kind is the finding key.
func c11Judge(prog []c11Node, paths []string, l *core.Local) (bad, kind string, cs c11Case, rejected bool) {
	cs = c11Case{Prog: prog}
	w1 := &c11World{f: flamego.NewWithLogger(io.Discard)}
	var flat []c11Flat
	var mustReject, ambHead bool
	var pan1 interface{}
	func() {
		defer func() { pan1 = recover() }()
		flat, mustReject, ambHead = c11Exec(w1, prog)
	}()
	// the flat side: single-method registrations, concatenated paths, concatenated handler lists
	w2 := &c11World{f: flamego.NewWithLogger(io.Discard)}
	var pan2 interface{}
	if pan1 == nil {
		pan2 = c11RegisterFlat(w2, flat)
		if pan2 == nil {
			for k := 1; k <= len(w1.tryPan)+len(w2.tryPan); k++ {
				if w1.tryPan[k] && !w2.tryPan[k] {
					return fmt.Sprintf("the %d. recovered leaf of the program is refused although its flat expansion registers fine at that point", k), "refused-but-flat-accepted/recovered-leaf", cs, false
				}
				if !w1.tryPan[k] && w2.tryPan[k] {
					return fmt.Sprintf("the %d. recovered leaf of the program registers although its flat expansion is refused at that point", k), "accepted-but-flat-refused/recovered-leaf", cs, false
				}
			}
		}
	} else {
		// the program died half way: the flat list is incomplete, so re-flatten without the real API
		// is not possible; judge by the flattener's own verdict on a dry run
		wdry := &c11World{f: flamego.NewWithLogger(io.Discard)}
		var dryFlat []c11Flat
		dryPan := func() (pv interface{}) {
			defer func() {
				if rv := recover(); rv != nil {
					pv = rv
				}
			}()
			dryFlat, mustReject, _ = c11FlattenOnly(prog)
			return c11RegisterFlat(wdry, dryFlat)
		}()
		if dryPan == nil && !mustReject {
			return fmt.Sprintf("the program is refused (%v) although its flat expansion registers fine", pan1), "refused-but-flat-accepted", cs, true
		}
		return "", "", cs, true
	}
	if mustReject {
		return "Combo accepted the same method twice", "combo-duplicate-accepted", cs, false
	}
	if pan2 != nil {
		return fmt.Sprintf("the program registers although its flat expansion is refused: %v", pan2), "accepted-but-flat-refused", cs, false
	}
	withHdr := false
	for _, fl := range flat {
		withHdr = withHdr || fl.Hdr
	}
	methods := c11Methods
	for _, fl := range flat {
		if fl.Method == "TRACE" || fl.Method == "CONNECT" {
			methods = append(append([]string{}, c08KnownMethods...), "BREW") // the program registers all nine: ask all nine
			break
		}
	}
	for _, m := range methods {
		if m == "HEAD" && ambHead {
			continue
		}
		for pi := 0; pi < 2*len(paths); pi++ {
			p := paths[pi/2]
			var hdr []string
			if pi%2 == 1 {
				// the request again with the constrained header, for programs that constrain a route
				if !withHdr {
					continue
				}
				hdr = []string{"X-K", "v"}
			}
			cs.Header = hdr
			l.Evals++
			t1, p1, s1, e1 := c11Serve(w1, m, p, hdr...)
			t2, p2, s2, e2 := c11Serve(w2, m, p, hdr...)
			if e1 != nil || e2 != nil {
				cs.Method, cs.Path = m, p
				return fmt.Sprintf("ServeHTTP panicked: %v / %v", e1, e2), "panic", cs, false
			}
			if t1 != t2 || p1 != p2 || s1 != s2 {
				cs.Method, cs.Path = m, p
				k := "differs"
				for _, n := range prog {
					if strings.HasPrefix(c11Kinds(n), "combo-spare") || strings.Contains(c11Kinds(n), "combo-spare") {
						k = "differs/combo-with-spare-capacity"
					}
				}
				return fmt.Sprintf("request %s %q headers %v: grouped registration runs handlers %s {%s} status %d; flat expansion runs %s {%s} status %d", m, p, hdr, t1, p1, s1, t2, p2, s2), k, cs, false
			}
			if t1 != "[]" {
				l.NonTrivial++
			}
		}
	}
	cs.Header = nil
	return "", "", cs, false
}

func c11Kinds(n c11Node) string {
	s := n.Kind
	for _, c := range n.Children {
		s += "," + c11Kinds(c)
	}
	return s
}

// c11FlattenOnly is c11Exec without touching any Flame.
func c11FlattenOnly(prog []c11Node) (flat []c11Flat, mustReject, amb bool) {
	nextID := 0
	tries := 0
	autoHead := false
	ids := func(n int) []int {
		out := make([]int, n)
		for i := range out {
			out[i] = nextID
			nextID++
		}
		return out
	}
	var walk func(nodes []c11Node, prefix string, outer []int)
	walk = func(nodes []c11Node, prefix string, outer []int) {
		for _, n := range nodes {
			switch n.Kind {
			case "autohead-on":
				autoHead = true
			case "autohead-off":
				autoHead = false
			case "try":
				tries++
				k, from := tries, len(flat)
				walk(n.Children, prefix, outer)
				for i := from; i < len(flat); i++ {
					flat[i].Try = k
				}
			case "group":
				g := ids(n.NH)
				walk(n.Children, prefix+n.Path, append(append([]int{}, outer...), g...))
			case "get":
				all := append(append([]int{}, outer...), ids(n.NH)...)
				flat = append(flat, c11Flat{Method: "GET", Path: prefix + n.Path, IDs: all})
				if autoHead {
					flat = append(flat, c11Flat{Method: "HEAD", Path: prefix + n.Path, IDs: all})
				}
			case "get-headers":
				all := append(append([]int{}, outer...), ids(n.NH)...)
				flat = append(flat, c11Flat{Method: "GET", Path: prefix + n.Path, IDs: all, Hdr: true})
				if autoHead {
					flat = append(flat, c11Flat{Method: "HEAD", Path: prefix + n.Path, IDs: all})
				}
			case "routes-headers":
				all := append(append([]int{}, outer...), ids(n.NH)...)
				flat = append(flat, c11Flat{Method: "GET", Path: prefix + n.Path, IDs: all, Hdr: true}, c11Flat{Method: "POST", Path: prefix + n.Path, IDs: all, Hdr: true})
				if autoHead {
					amb = true
				}
			case "post":
				flat = append(flat, c11Flat{Method: "POST", Path: prefix + n.Path, IDs: append(append([]int{}, outer...), ids(n.NH)...)})
			case "routes-all9":
				all := append(append([]int{}, outer...), ids(n.NH)...)
				for _, mm := range c08KnownMethods {
					flat = append(flat, c11Flat{Method: mm, Path: prefix + n.Path, IDs: all})
				}
			case "routes-unknown-in-the-middle":
				all := append(append([]int{}, outer...), ids(n.NH)...)
				for _, mm := range []string{"GET", "POST", "FETCH", "PUT"} {
					flat = append(flat, c11Flat{Method: mm, Path: prefix + n.Path, IDs: all})
				}
			case "routes-star":
				all := append(append([]int{}, outer...), ids(n.NH)...)
				for _, mm := range c08KnownMethods {
					flat = append(flat, c11Flat{Method: mm, Path: prefix + n.Path, IDs: all})
				}
			case "routes-mixedcase":
				all := append(append([]int{}, outer...), ids(n.NH)...)
				for _, mm := range []string{"GET", "POST", "PUT"} {
					flat = append(flat, c11Flat{Method: mm, Path: prefix + n.Path, IDs: all})
				}
				if autoHead {
					amb = true
				}
			case "routes-multi3":
				all := append(append([]int{}, outer...), ids(n.NH)...)
				for _, mm := range []string{"GET", "POST", "PUT"} {
					flat = append(flat, c11Flat{Method: mm, Path: prefix + n.Path, IDs: all})
				}
				if autoHead {
					amb = true
				}
			case "routes-comma", "routes-multi":
				all := append(append([]int{}, outer...), ids(n.NH)...)
				flat = append(flat, c11Flat{Method: "GET", Path: prefix + n.Path, IDs: all}, c11Flat{Method: "POST", Path: prefix + n.Path, IDs: all})
				if autoHead {
					amb = true
				}
			case "any":
				all := append(append([]int{}, outer...), ids(n.NH)...)
				for _, m := range c08KnownMethods {
					flat = append(flat, c11Flat{Method: m, Path: prefix + n.Path, IDs: all})
				}
			case "combo-get", "combo-post":
				all := append(append(append([]int{}, outer...), ids(n.NH)...), ids(1)...)
				if n.Kind == "combo-get" {
					flat = append(flat, c11Flat{Method: "GET", Path: prefix + n.Path, IDs: all})
					if autoHead {
						flat = append(flat, c11Flat{Method: "HEAD", Path: prefix + n.Path, IDs: all})
					}
				} else {
					flat = append(flat, c11Flat{Method: "POST", Path: prefix + n.Path, IDs: all})
				}
			case "combo-across-scopes":
				common := ids(n.NH)
				kh, hh := ids(1), ids(1)
				g, p, u := ids(1), ids(1), ids(1)
				cat := func(parts ...[]int) []int {
					var out []int
					for _, x := range parts {
						out = append(out, x...)
					}
					return out
				}
				flat = append(flat, c11Flat{Method: "GET", Path: prefix + "/v" + n.Path, IDs: cat(outer, kh, common, g)})
				if autoHead {
					flat = append(flat, c11Flat{Method: "HEAD", Path: prefix + "/v" + n.Path, IDs: cat(outer, kh, common, g)})
				}
				flat = append(flat, c11Flat{Method: "POST", Path: prefix + "/v/g" + n.Path, IDs: cat(outer, kh, hh, common, p)},
					c11Flat{Method: "PUT", Path: prefix + n.Path, IDs: cat(outer, common, u)})
			case "verbs", "combo-verbs":
				common := []int{}
				if n.Kind == "combo-verbs" {
					common = ids(n.NH)
				}
				base := append(append([]int{}, outer...), common...)
				for _, mm := range c11Verbs {
					all := append(append([]int{}, base...), ids(1)...)
					flat = append(flat, c11Flat{Method: mm, Path: prefix + n.Path, IDs: all})
					if mm == "GET" && autoHead {
						flat = append(flat, c11Flat{Method: "HEAD", Path: prefix + n.Path, IDs: all})
					}
				}
			case "combo-toggle-head":
				base := append(append([]int{}, outer...), ids(n.NH)...)
				g, h := ids(1), ids(1)
				flat = append(flat, c11Flat{Method: "GET", Path: prefix + n.Path, IDs: append(append([]int{}, base...), g...)},
					c11Flat{Method: "HEAD", Path: prefix + n.Path, IDs: append(append([]int{}, base...), h...)})
			case "combo", "combo-spare", "combo-dup":
				base := append(append([]int{}, outer...), ids(n.NH)...)
				g, p := ids(1), ids(1)
				flat = append(flat, c11Flat{Method: "GET", Path: prefix + n.Path, IDs: append(append([]int{}, base...), g...)})
				if autoHead {
					flat = append(flat, c11Flat{Method: "HEAD", Path: prefix + n.Path, IDs: append(append([]int{}, base...), g...)})
				}
				flat = append(flat, c11Flat{Method: "POST", Path: prefix + n.Path, IDs: append(append([]int{}, base...), p...)})
				if n.Kind == "combo-dup" {
					mustReject = true
				}
			}
		}
	}
	walk(prog, "", nil)
	return
}

func c11Leaves(thorough bool) []c11Node {
	kinds := []string{"get", "get-headers", "post", "routes-comma", "routes-multi", "any", "combo", "combo-spare", "combo-dup", "combo-toggle-head"}
	paths := []string{"/a", "/{x}"}
	nhs := []int{1}
	if thorough {
		nhs = []int{1, 2}
	}
	var out []c11Node
	for _, k := range kinds {
		for _, p := range paths {
			for _, nh := range nhs {
				if k == "combo-dup" && (p != "/a" || nh != 1) {
					continue
				}
				out = append(out, c11Node{Kind: k, Path: p, NH: nh})
			}
		}
	}
	out = append(out, c11Node{Kind: "autohead-on"}, c11Node{Kind: "autohead-off"})
	return out
}

func c11Seqs(items []c11Node, maxLen int) [][]c11Node {
	var out [][]c11Node
	for _, a := range items {
		out = append(out, []c11Node{a})
	}
	if maxLen >= 2 {
		for _, a := range items {
			for _, b := range items {
				out = append(out, []c11Node{a, b})
			}
		}
	}
	return out
}

func c11Programs(thorough bool) [][]c11Node {
	leaves := c11Leaves(thorough)
	var progs [][]c11Node
	progs = append(progs, c11Seqs(leaves, 2)...)
	prefixes := []string{"/g", "/{p}", ""}
	ghs := []int{0, 2}
	if thorough {
		ghs = []int{0, 1, 2}
	}
	var groups []c11Node
	for _, ch := range c11Seqs(leaves, 2) {
		for _, pf := range prefixes {
			for _, gh := range ghs {
				groups = append(groups, c11Node{Kind: "group", Path: pf, NH: gh, Children: ch})
			}
		}
	}
	for _, g := range groups {
		progs = append(progs, []c11Node{g})
	}
	// a group followed / preceded by one sibling leaf (leaving a group restores the scope)
	for gi, g := range groups {
		if !thorough && gi%3 != 0 {
			continue
		}
		for _, lf := range leaves {
			progs = append(progs, []c11Node{g, lf}, []c11Node{lf, g})
		}
	}
	// nested groups: outer group with one child group holding one leaf, plus a leaf sibling inside
	inner := leaves
	for _, pf := range prefixes {
		for _, pf2 := range prefixes {
			for _, lf := range inner {
				for _, sib := range inner {
					if !thorough && (sib.Kind != "get" || sib.Path != "/a") {
						continue
					}
					g2 := c11Node{Kind: "group", Path: pf2, NH: 1, Children: []c11Node{lf}}
					progs = append(progs,
						[]c11Node{{Kind: "group", Path: pf, NH: 1, Children: []c11Node{g2, sib}}},
						[]c11Node{{Kind: "group", Path: pf, NH: 1, Children: []c11Node{sib, g2}}})
				}
			}
		}
	}
	// group and route path fragments that do not start with a slash continue the enclosing scope's last
	// segment (plain concatenation)
	for _, gp := range []string{"/g", "/{p}"} {
		for _, frag := range []string{"-x", ".{e}", "a"} {
			for _, lf := range []string{"get", "any", "combo", "routes-comma"} {
				progs = append(progs,
					[]c11Node{{Kind: "group", Path: gp, NH: 1, Children: []c11Node{{Kind: lf, Path: frag, NH: 1}}}},
					[]c11Node{{Kind: "group", Path: gp, NH: 0, Children: []c11Node{{Kind: "group", Path: frag, NH: 1, Children: []c11Node{{Kind: lf, Path: "/a", NH: 1}}}}}})
			}
		}
	}
	// Routes with three method names as separate strings and one to three handlers, flat and in groups
	for _, nh := range []int{1, 2, 3} {
		for _, pth := range []string{"/a", "/{x}"} {
			lf := c11Node{Kind: "routes-multi3", Path: pth, NH: nh}
			progs = append(progs, []c11Node{lf}, []c11Node{{Kind: "group", Path: "/g", NH: 1, Children: []c11Node{lf}}},
				[]c11Node{{Kind: "group", Path: "/g", NH: 2, Children: []c11Node{lf, {Kind: "get", Path: "/v", NH: 1}}}}, []c11Node{{Kind: "autohead-on"}, lf})
		}
	}
	// a Combo given methods from other scopes than the one it was created in
	for _, pth := range []string{"/a", "/{x}"} {
		for _, nh := range []int{0, 1} {
			lf := c11Node{Kind: "combo-across-scopes", Path: pth, NH: nh}
			progs = append(progs, []c11Node{lf}, []c11Node{{Kind: "autohead-on"}, lf}, []c11Node{{Kind: "group", Path: "/g", NH: 1, Children: []c11Node{lf, {Kind: "get", Path: "/v", NH: 1}}}, {Kind: "post", Path: "/v", NH: 1}},
				[]c11Node{{Kind: "group", Path: "/{p}", NH: 2, Children: []c11Node{{Kind: "group", Path: "/g", NH: 0, Children: []c11Node{lf}}}}})
		}
	}
	// a Routes call whose method list is refused half way, recovered, flat and inside groups
	for _, pth := range []string{"/a", "/{x}"} {
		t := c11Node{Kind: "try", Children: []c11Node{{Kind: "routes-unknown-in-the-middle", Path: pth, NH: 1}}}
		progs = append(progs, []c11Node{t}, []c11Node{t, {Kind: "get", Path: "/v", NH: 1}}, []c11Node{{Kind: "group", Path: "/g", NH: 1, Children: []c11Node{t, {Kind: "post", Path: "/v", NH: 1}}}, {Kind: "get", Path: "/v", NH: 1}},
			[]c11Node{{Kind: "post", Path: pth, NH: 1}, t})
	}
	// AutoHead switched several times in a row (the switch is a setting, not a counter): every sequence of up
	// to four switches, then a Get and a Combo, flat and inside a group
	{
		var seqs [][]c11Node
		var rec func(pre []c11Node)
		rec = func(pre []c11Node) {
			if len(pre) >= 2 {
				seqs = append(seqs, append([]c11Node{}, pre...))
			}
			if len(pre) == 4 {
				return
			}
			for _, k := range []string{"autohead-on", "autohead-off"} {
				rec(append(pre, c11Node{Kind: k}))
			}
		}
		rec(nil)
		for _, sq := range seqs {
			tail := []c11Node{{Kind: "get", Path: "/a", NH: 1}, {Kind: "combo", Path: "/v", NH: 1}}
			progs = append(progs, append(append([]c11Node{}, sq...), tail...),
				[]c11Node{{Kind: "group", Path: "/g", NH: 1, Children: append(append([]c11Node{}, sq...), tail...)}, {Kind: "get", Path: "/{x}", NH: 1}})
		}
	}
	// Routes with the wild card as its method list
	for _, pth := range []string{"/a", "/{x}"} {
		for _, nh := range []int{1, 2} {
			lf := c11Node{Kind: "routes-star", Path: pth, NH: nh}
			progs = append(progs, []c11Node{lf}, []c11Node{{Kind: "group", Path: "/g", NH: 1, Children: []c11Node{lf, {Kind: "get", Path: "/v", NH: 1}}}}, []c11Node{{Kind: "autohead-on"}, lf})
		}
	}
	// Routes with method names in lower and mixed case
	for _, pth := range []string{"/a", "/{x}"} {
		lf := c11Node{Kind: "routes-mixedcase", Path: pth, NH: 1}
		progs = append(progs, []c11Node{lf}, []c11Node{{Kind: "group", Path: "/g", NH: 1, Children: []c11Node{lf, {Kind: "get", Path: "/v", NH: 1}}}}, []c11Node{lf, {Kind: "post", Path: "/v", NH: 1}}, []c11Node{{Kind: "any", Path: "/{y}", NH: 1}, lf})
	}
	// Routes for two methods with header constraints on the returned route (static and dynamic paths)
	for _, pth := range []string{"/a", "/{x}"} {
		lf := c11Node{Kind: "routes-headers", Path: pth, NH: 1}
		progs = append(progs, []c11Node{lf}, []c11Node{{Kind: "group", Path: "/g", NH: 1, Children: []c11Node{lf}}}, []c11Node{lf, {Kind: "get", Path: "/v", NH: 1}}, []c11Node{{Kind: "post", Path: "/v", NH: 1}, lf})
	}
	// all nine methods in one Routes call
	for _, pth := range []string{"/a", "/{x}"} {
		lf := c11Node{Kind: "routes-all9", Path: pth, NH: 1}
		progs = append(progs, []c11Node{lf}, []c11Node{{Kind: "group", Path: "/g", NH: 1, Children: []c11Node{lf}}}, []c11Node{lf, {Kind: "get", Path: "/v", NH: 1}})
	}
	// a nested group WITHOUT handlers, closed before a sibling of the enclosing group (which has handlers) is
	// registered: leaving the inner group restores exactly the outer scope
	for _, lf := range []c11Node{{Kind: "get", Path: "/a", NH: 1}, {Kind: "any", Path: "/{x}", NH: 1}, {Kind: "combo", Path: "/a", NH: 1}} {
		for _, onh := range []int{1, 2} {
			hollow := c11Node{Kind: "group", Path: "/g", NH: 0, Children: []c11Node{{Kind: "get", Path: "/v", NH: 1}}}
			hollowEmpty := c11Node{Kind: "group", Path: "", NH: 0, Children: []c11Node{{Kind: "post", Path: "/v", NH: 1}}}
			progs = append(progs,
				[]c11Node{{Kind: "group", Path: "/g", NH: onh, Children: []c11Node{hollow, lf}}},
				[]c11Node{{Kind: "group", Path: "/g", NH: onh, Children: []c11Node{hollowEmpty, lf, hollow, {Kind: "post", Path: "/a", NH: 1}}}},
				[]c11Node{{Kind: "group", Path: "/g", NH: onh, Children: []c11Node{{Kind: "group", Path: "/g", NH: 1, Children: []c11Node{hollow, lf}}, lf}}})
		}
	}
	// separate Combo calls for one path (each with common handlers of its own), flat, in one group, and
	// from two groups that resolve to the same full path
	for _, a := range []string{"combo-get", "combo-post"} {
		for _, b := range []string{"combo-get", "combo-post", "get", "post"} {
			if a == b || (a == "combo-get" && b == "get") || (a == "combo-post" && b == "post") {
				continue
			}
			for _, nh := range [][2]int{{1, 1}, {1, 2}, {2, 1}, {0, 1}} {
				x, y := c11Node{Kind: a, Path: "/a", NH: nh[0]}, c11Node{Kind: b, Path: "/a", NH: nh[1]}
				progs = append(progs, []c11Node{x, y}, []c11Node{y, x},
					[]c11Node{{Kind: "group", Path: "/g", NH: 1, Children: []c11Node{x, y}}},
					[]c11Node{{Kind: "group", Path: "/g", NH: 1, Children: []c11Node{x}}, {Kind: "group", Path: "/g", NH: 2, Children: []c11Node{y}}},
					[]c11Node{{Kind: "group", Path: "/g", NH: 0, Children: []c11Node{{Kind: a, Path: "/a/a", NH: nh[0]}}}, {Kind: "group", Path: "/g/a", NH: 1, Children: []c11Node{y}}})
			}
		}
	}
	// a route with an optional last segment and the literal path its long form covers, under every pair of
	// registration kinds (each method's tree has its own earlier/later order), flat and inside a group
	{
		var ol []c11Node
		for _, k := range []string{"get", "post", "any", "routes-comma", "combo"} {
			for _, pth := range []string{"/o/?t", "/o/t", "/o"} {
				ol = append(ol, c11Node{Kind: k, Path: pth, NH: 1})
			}
		}
		for _, a := range ol {
			for _, b := range ol {
				if a.Path == b.Path {
					continue
				}
				progs = append(progs, []c11Node{a, b}, []c11Node{{Kind: "group", Path: "/g", NH: 1, Children: []c11Node{a, b}}})
			}
		}
	}
	// every method shortcut of the router and of a Combo, flat, in groups, with AutoHead, next to other leaves
	for _, k := range []string{"verbs", "combo-verbs"} {
		for _, pth := range []string{"/a", "/{x}"} {
			lf := c11Node{Kind: k, Path: pth, NH: 1}
			progs = append(progs, []c11Node{lf}, []c11Node{{Kind: "autohead-on"}, lf}, []c11Node{{Kind: "group", Path: "/g", NH: 1, Children: []c11Node{lf}}},
				[]c11Node{{Kind: "group", Path: "/{p}", NH: 2, Children: []c11Node{lf, {Kind: "get", Path: "/v", NH: 1}}}, {Kind: "post", Path: "/v", NH: 1}},
				[]c11Node{lf, {Kind: "any", Path: "/v", NH: 1}}, []c11Node{{Kind: "any", Path: "/{y}", NH: 1}, lf})
		}
	}
	// a leaf that is refused (its method and full path are taken) while the application recovers and goes on:
	// the refusal leaves the scope as it was - what is registered afterwards, inside the same group and after
	// it, lands where the flat list puts it
	{
		firsts := []c11Node{{Kind: "get", Path: "/a", NH: 1}, {Kind: "post", Path: "/a", NH: 1}, {Kind: "combo-get", Path: "/a", NH: 1}, {Kind: "combo-post", Path: "/a", NH: 1}, {Kind: "any", Path: "/a", NH: 1}}
		seconds := []c11Node{{Kind: "get", Path: "/a", NH: 2}, {Kind: "post", Path: "/a", NH: 1}, {Kind: "combo-get", Path: "/a", NH: 1}, {Kind: "combo-post", Path: "/a", NH: 2}, {Kind: "combo-get", Path: "/v", NH: 1},
			// a registration for all methods that is refused for one of them: the methods in front of it are registered
			{Kind: "any", Path: "/a", NH: 1}, {Kind: "routes-star", Path: "/a", NH: 1}}
		afters := []c11Node{{Kind: "get", Path: "/v", NH: 1}, {Kind: "post", Path: "/{x}", NH: 1}, {Kind: "combo", Path: "/v", NH: 1}}
		for _, x := range firsts {
			for _, y := range seconds {
				t := c11Node{Kind: "try", Children: []c11Node{y}}
				for _, z := range afters {
					progs = append(progs, []c11Node{x, t, z},
						[]c11Node{{Kind: "group", Path: "/g", NH: 1, Children: []c11Node{x, t, z}}, z},
						[]c11Node{{Kind: "group", Path: "/g", NH: 2, Children: []c11Node{{Kind: "group", Path: "/{p}", NH: 1, Children: []c11Node{x, t}}, z}}, z},
						[]c11Node{{Kind: "autohead-on"}, x, t, z})
				}
			}
		}
	}
	// nested groups whose accumulated handler lists have spare capacity, with two sibling routes in the
	// innermost group (and one after it): the shape in which shared backing arrays would bite
	red := []c11Node{{Kind: "get", Path: "/a", NH: 1}, {Kind: "get", Path: "/v", NH: 1}, {Kind: "post", Path: "/a", NH: 2}, {Kind: "any", Path: "/{x}", NH: 1},
		{Kind: "combo", Path: "/a", NH: 1}, {Kind: "routes-comma", Path: "/v", NH: 1}}
	profiles := [][]int{{2, 1}, {1, 2}, {1, 1, 1}, {0, 1, 1}, {2, 2}, {3, 1}, {1, 1, 1, 1}}
	if !thorough {
		profiles = profiles[:4]
	}
	for _, prof := range profiles {
		for _, a := range red {
			for _, b := range red {
				for _, tail := range []int{-1, 0, 3} {
					for _, gp := range []string{"/g", ""} {
						inner := []c11Node{a, b}
						node := c11Node{Kind: "group", Path: gp, NH: prof[len(prof)-1], Children: inner}
						for d := len(prof) - 2; d >= 0; d-- {
							ch := []c11Node{node}
							if tail >= 0 && d == len(prof)-2 {
								ch = append(ch, red[tail])
							}
							node = c11Node{Kind: "group", Path: gp, NH: prof[d], Children: ch}
						}
						progs = append(progs, []c11Node{node})
					}
				}
			}
		}
	}
	return progs
}

func c11Run(r *core.Run) {
	r.SetBudget(75 * time.Second)
	if r.Thorough() {
		r.SetBudget(12 * time.Minute)
	}
	progs := c11Programs(r.Thorough())
	paths := c11Paths(r.Thorough())
	r.Rule = "engine E over registration programs: sequences of leaves {Get, Get(...).Headers(...), Post, Routes(comma list), Routes(several method strings), Any, the eight method shortcuts of the router and of one Combo, Combo.Get.Post (also with a spare-capacity caller slice, the same method twice, separate Combo calls for one path, GET then - AutoHead switched on in between - HEAD on one Combo, a leaf whose refusal the program recovers from before it goes on, and a Combo that is given methods from a nested group and after its group was left), AutoHead on/off} inside 0..2 levels of Group(prefix, 0..2 handlers); each program is executed through the real grouping API on one Flame and as its flat single-method expansion (concatenated paths and handler-id lists) on a second Flame; every request (5 methods x all paths up to 2-3 segments over the program's literals) must run the same handler ids in the same order with the same parameters; non-trivial = request that runs at least one handler"
	r.Bounds["programs"] = len(progs)
	r.Bounds["paths"] = len(paths)
	r.Bounds["methods"] = c11Methods
	r.Assumptions = []string{"HEAD requests are not compared for programs that call Routes() with GET while AutoHead is on (whether that GET gets a HEAD twin is not fixed by the statement)"}
	r.Parallel(func(w, nw int, l *core.Local) {
		for pi := w; pi < len(progs); pi += nw {
			if r.Expired() {
				return
			}
			l.States++
			l.Transitions++
			l.Traces++
			bad, kind, cs, rejected := c11Judge(progs[pi], paths, l)
			if bad != "" {
				l.Class("mismatch")
				l.Violate(kind, bad+fmt.Sprintf(" [program %v]", progs[pi]), cs)
				continue
			}
			if rejected {
				l.Class("program-refused(as its flat expansion)")
			} else {
				l.Class("program-equivalent")
				if pi%2003 == 0 {
					l.Sample(fmt.Sprint(progs[pi]))
				}
			}
		}
	})
}

func c11Replay(raw json.RawMessage) (bool, string) {
	var c c11Case
	if err := json.Unmarshal(raw, &c); err != nil {
		return false, err.Error()
	}
	l := core.NewLocal()
	bad, _, _, _ := c11Judge(c.Prog, c11Paths(true), l)
	return bad != "", bad
}

func init() {
	core.Register(&core.Check{ID: "C11", Run: c11Run, Replay: c11Replay})
}
