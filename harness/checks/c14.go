package checks

import (
	"encoding/json"
	"errors"
	"fmt"
	"io"
	"net/http"
	"reflect"
	"strings"
	"time"

	"github.com/flamego/flamego"
	"github.com/flamego/flamego/verifharness/core"
)

// ---- C14: handler return values map to the response by a fixed table (engine E) ----

type c14ValErr struct{ msg string }

func (e c14ValErr) Error() string { return e.msg }

type c14PtrErr struct{ msg string }

func (e *c14PtrErr) Error() string { return e.msg }

type c14EmptyErr struct{}

func (c14EmptyErr) Error() string { return "boom-empty-struct" }

type c14Errno int

func (e c14Errno) Error() string { return fmt.Sprintf("boom-errno-%d", int(e)) }

// errors whose concrete type cannot be a map key
type c14SliceErr []string

func (e c14SliceErr) Error() string { return "boom-slice:" + strings.Join(e, ",") }

type c14FieldsErr struct{ Fields []string }

func (e c14FieldsErr) Error() string { return "boom-fields:" + strings.Join(e.Fields, ",") }

type c14StrErr string

func (e c14StrErr) Error() string { return "boom-strerr:" + string(e) }

var c14Shapes = []string{"string", "[]byte", "error", "(int,string)/fast", "(int,string)/reflect", "(int,[]byte)", "(int,error)", "(string,error)", "([]byte,error)", "*string", "*[]byte",
	// named string and byte-slice types that carry a String() method (and, the string one, a Format method): the
	// value is the body, not what its methods would print
	"Stringer-string", "(int,Stringer-string)", "(Stringer-string,error)", "Stringer-[]byte",
	// the same shapes returned by handlers that take the request context (other invokers than for func() ...)
	"error/ctx", "(int,error)/ctx", "(string,error)/ctx", "string/ctx", "[]byte/ctx"}

type c14Token string

func (c14Token) String() string { return "[String() of the value]" }

func (c14Token) Format(f fmt.State, verb rune) { _, _ = f.Write([]byte("[Format() of the value]")) }

type c14Blob []byte

func (c14Blob) String() string { return "[String() of the value]" }

type c14Vals struct {
	S    string `json:"string"`
	B    []byte `json:"bytes"`
	BNil bool   `json:"bytes_nil"`
	Err  string `json:"error_kind"` // "nil", "errors.New", "struct", "pointer", "empty-struct", "zero-int", "empty-string-kind", "percent", "percent-verbs"
	Code int    `json:"status"`
	PNil bool   `json:"pointer_nil"`
}

type c14World struct {
	f        *flamego.Flame
	v        c14Vals
	nextRan  bool
	customN  int
	customV  []string
	position string
	custom   string
	lastCode int
	// wrapped: an earlier middleware maps http.ResponseWriter to a writer that embeds the request's
	// flamego.ResponseWriter and has a Write of its own (as a compressing or capturing middleware does); seen
	// is what went through that Write
	wrapped bool
	seen    []byte
	// mounted: the application is served from inside a handler of another application, on that request's
	// flamego.ResponseWriter, after that handler has already written "[" (so a status is out): the table
	// decides what is appended and whether the chain goes on
	mounted bool
}

type c14Wrap struct {
	flamego.ResponseWriter
	w *c14World
}

func (x *c14Wrap) Write(b []byte) (int, error) {
	x.w.seen = append(x.w.seen, b...)
	return x.ResponseWriter.Write(b)
}

func (w *c14World) err() error {
	switch w.v.Err {
	case "errors.New":
		return errors.New("boom-new")
	case "struct":
		return c14ValErr{"boom-struct"}
	case "pointer":
		return &c14PtrErr{"boom-pointer"}
	case "empty-struct": // non-nil errors whose concrete value is the zero value of its type
		return c14EmptyErr{}
	case "zero-int":
		return c14Errno(0)
	case "empty-string-kind":
		return c14StrErr("")
	case "slice-typed":
		return c14SliceErr{"name", "age"}
	case "struct-with-slice":
		return c14FieldsErr{Fields: []string{"name"}}
	case "percent": // messages that a printf-style writer would mangle
		return errors.New("disk is 100% full")
	case "percent-verbs":
		return c14ValErr{"%s %d %v %% %!x(MISSING) \x00\n"}
	}
	return nil
}

func (w *c14World) bytes() []byte {
	if w.v.BNil {
		return nil
	}
	if w.v.B == nil {
		return []byte{}
	}
	return w.v.B
}

func (w *c14World) handler(shape string) flamego.Handler {
	switch shape {
	case "string":
		return func() string { return w.v.S }
	case "[]byte":
		return func() []byte { return w.bytes() }
	case "error":
		return func() error { return w.err() }
	case "(int,string)/fast":
		return func() (int, string) { return w.v.Code, w.v.S }
	case "(int,string)/reflect":
		return func(c flamego.Context) (int, string) { return w.v.Code, w.v.S }
	case "(int,[]byte)":
		return func() (int, []byte) { return w.v.Code, w.bytes() }
	case "(int,error)":
		return func() (int, error) { return w.v.Code, w.err() }
	case "(string,error)":
		return func() (string, error) { return w.v.S, w.err() }
	case "error/ctx":
		return func(c flamego.Context) error { return w.err() }
	case "(int,error)/ctx":
		return func(c flamego.Context) (int, error) { return w.v.Code, w.err() }
	case "(string,error)/ctx":
		return func(c flamego.Context) (string, error) { return w.v.S, w.err() }
	case "string/ctx":
		return func(c flamego.Context) string { return w.v.S }
	case "[]byte/ctx":
		return func(c flamego.Context) []byte { return w.bytes() }
	case "Stringer-string":
		return func() c14Token { return c14Token(w.v.S) }
	case "(int,Stringer-string)":
		return func() (int, c14Token) { return w.v.Code, c14Token(w.v.S) }
	case "(Stringer-string,error)":
		return func() (c14Token, error) { return c14Token(w.v.S), w.err() }
	case "Stringer-[]byte":
		return func() c14Blob { return c14Blob(w.bytes()) }
	case "([]byte,error)":
		return func() ([]byte, error) { return w.bytes(), w.err() }
	case "*string":
		return func() *string {
			if w.v.PNil {
				return nil
			}
			s := w.v.S
			return &s
		}
	case "*[]byte":
		return func() *[]byte {
			if w.v.PNil {
				return nil
			}
			b := w.bytes()
			return &b
		}
	}
	panic("shape")
}

// custom: "", "app" (mapped on the Flame), "request" (mapped by an earlier middleware)
func c14Build(shape, position, custom string) *c14World {
	w := &c14World{f: flamego.NewWithLogger(io.Discard), position: position, custom: custom}
	if custom == "mounted" {
		w.custom, w.mounted = "", true
	}
	if custom == "wrapped-writer" {
		w.custom, w.wrapped = "", true
		w.f.Use(func(c flamego.Context) {
			c.MapTo(&c14Wrap{c.ResponseWriter(), w}, (*http.ResponseWriter)(nil))
		})
	}
	customRH := flamego.ReturnHandler(func(c flamego.Context, vals []reflect.Value) {
		w.customN++
		for _, v := range vals {
			w.customV = append(w.customV, fmt.Sprint(v.Interface()))
		}
	})
	if custom == "app" {
		w.f.Map(customRH)
	}
	if custom == "request" {
		w.f.Use(func(c flamego.Context) { c.Map(customRH) })
	}
	if custom == "request-late" {
		// an earlier handler of the same request has already returned an (empty) value, rendered by
		// the default table, before the custom handler is mapped
		w.f.Use(func() string { return "" }, func() error { return nil }, func(c flamego.Context) { c.Map(customRH) })
	}
	next := func(c flamego.Context) {
		w.nextRan = true
		c.ResponseWriter().WriteHeader(299)
	}
	switch position {
	case "first-of-two":
		w.f.Routes("/", "GET,HEAD", w.handler(shape), next)
	case "last":
		w.f.Routes("/", "GET,HEAD", func() {}, w.handler(shape))
		w.f.Action(next) // the action tells us whether the chain went on
	case "middleware":
		w.f.Use(w.handler(shape))
		w.f.Routes("/", "GET,HEAD", next)
	}
	if custom == "app-late" {
		// the custom return handler is mapped on the application only after requests have been served
		w.v = c14Vals{S: "warm-up", B: []byte("warm-up"), Err: "errors.New", Code: 200}
		for i := 0; i < 2; i++ {
			func() {
				defer func() { _ = recover() }()
				w.f.ServeHTTP(&c01Spy{hdr: http.Header{}}, newReq("GET", "/"))
			}()
		}
		w.f.Map(customRH)
	}
	return w
}

type c14Expect struct {
	Defined bool
	Wrote   bool
	Status  int
	Body    string
}

// c14Table is the table of the statement.
func c14Table(shape string, v c14Vals, errv error, b []byte) c14Expect {
	shape = strings.TrimSuffix(shape, "/ctx")
	body := func(s string) c14Expect {
		if s == "" {
			return c14Expect{Defined: true}
		}
		return c14Expect{Defined: true, Wrote: true, Status: 200, Body: s}
	}
	fail := func(e error) c14Expect {
		return c14Expect{Defined: true, Wrote: true, Status: 500, Body: e.Error()}
	}
	switch shape {
	case "string", "Stringer-string":
		return body(v.S)
	case "[]byte", "Stringer-[]byte":
		return body(string(b))
	case "error":
		if errv == nil {
			return c14Expect{Defined: true}
		}
		return fail(errv)
	case "(int,string)/fast", "(int,string)/reflect", "(int,Stringer-string)":
		return c14Expect{Defined: true, Wrote: true, Status: v.Code, Body: v.S}
	case "(int,[]byte)":
		return c14Expect{Defined: true, Wrote: true, Status: v.Code, Body: string(b)}
	case "(int,error)":
		if errv == nil {
			return c14Expect{Defined: true, Wrote: true, Status: v.Code}
		}
		return c14Expect{Defined: true, Wrote: true, Status: v.Code, Body: errv.Error()}
	case "(string,error)", "(Stringer-string,error)":
		if errv != nil {
			return fail(errv)
		}
		return body(v.S)
	case "([]byte,error)":
		if errv != nil {
			return fail(errv)
		}
		return body(string(b))
	case "*string":
		if v.PNil {
			return c14Expect{Defined: true}
		}
		if v.S == "" {
			return c14Expect{} // non-nil pointer to an empty value: not covered by the statement
		}
		return body(v.S)
	case "*[]byte":
		if v.PNil {
			return c14Expect{Defined: true}
		}
		if len(b) == 0 {
			return c14Expect{}
		}
		return body(string(b))
	}
	return c14Expect{}
}

type c14Case struct {
	Shape    string  `json:"shape"`
	Position string  `json:"position"`
	Custom   string  `json:"custom_return_handler"`
	V        c14Vals `json:"values"`
	// Prev are the values returned by the same handler for the requests served before on the same instance.
	Prev []c14Vals `json:"earlier_requests_on_the_same_instance,omitempty"`
	// Twin: the values of the other route's handler (both handlers are closures of one function literal)
	Twin *c14Vals `json:"values_of_the_sibling_route,omitempty"`
	// PrevShape: the earlier request went to another route of the same instance, whose handler has this shape
	PrevShape string `json:"shape_of_the_earlier_request_on_another_route,omitempty"`
}

// c14Cross: one instance with two routes whose handlers have shapes sa and sb: a request to the first, then
// one to the second, then the first again; every response is what the table says of its own values.
func c14Cross(sa string, va c14Vals, sb string, vb c14Vals) (bad, kind string) {
	wa := &c14World{f: flamego.NewWithLogger(io.Discard), v: va}
	wb := &c14World{f: wa.f, v: vb}
	next := func(c flamego.Context) { c.ResponseWriter().WriteHeader(299) }
	wa.f.Get("/a", wa.handler(sa), next)
	wa.f.Get("/b", wb.handler(sb), next)
	for i, w := range []*c14World{wa, wb, wa} {
		path, shape := "/a", sa
		if w == wb {
			path, shape = "/b", sb
		}
		spy := &c01Spy{hdr: http.Header{}}
		var pan interface{}
		func() {
			defer func() { pan = recover() }()
			wa.f.ServeHTTP(spy, newReq("GET", path))
		}()
		if pan != nil {
			return fmt.Sprintf("ServeHTTP panicked: %v", pan), "panic"
		}
		want := c14Table(shape, w.v, w.err(), w.bytes())
		if !want.Defined {
			continue
		}
		if want.Wrote && (spy.code != want.Status || spy.body.String() != want.Body) {
			return fmt.Sprintf("request %d (%s, shape %s): status %d body %q, the table says status %d body %q", i+1, path, shape, spy.code, trunc(spy.body.String()), want.Status, trunc(want.Body)), "wrong-response/after-another-shape"
		}
		if !want.Wrote && spy.code != 299 {
			return fmt.Sprintf("request %d (%s, shape %s): status %d body %q although the handler returned nothing to write", i+1, path, shape, spy.code, trunc(spy.body.String())), "empty-result-wrote/after-another-shape"
		}
	}
	return "", ""
}

// c14Twins: two routes whose handlers are two closures of ONE function literal (a handler factory called in
// a loop, the usual table-driven registration), each with values of its own: each route answers with its own.
func c14Twins(shape string, va, vb c14Vals) (bad, kind string) {
	wa := &c14World{f: flamego.NewWithLogger(io.Discard), v: va}
	wb := &c14World{f: wa.f, v: vb}
	next := func(c flamego.Context) { c.ResponseWriter().WriteHeader(299) }
	for i, w := range []*c14World{wa, wb} {
		wa.f.Get([]string{"/a", "/b"}[i], w.handler(shape), next)
	}
	for i, w := range []*c14World{wb, wa, wb} {
		path := "/b"
		if w == wa {
			path = "/a"
		}
		spy := &c01Spy{hdr: http.Header{}}
		var pan interface{}
		func() {
			defer func() { pan = recover() }()
			wa.f.ServeHTTP(spy, newReq("GET", path))
		}()
		if pan != nil {
			return fmt.Sprintf("ServeHTTP panicked: %v", pan), "panic"
		}
		want := c14Table(shape, w.v, w.err(), w.bytes())
		if !want.Defined {
			continue
		}
		if want.Wrote && (spy.code != want.Status || spy.body.String() != want.Body) {
			return fmt.Sprintf("request %d (%s): status %d body %q, the table says status %d body %q for the values of that route's own handler", i+1, path, spy.code, trunc(spy.body.String()), want.Status, trunc(want.Body)), "wrong-response/two-closures-of-one-literal"
		}
		if !want.Wrote && spy.code != 299 {
			return fmt.Sprintf("request %d (%s): status %d body %q although that route's handler returned nothing to write", i+1, path, spy.code, trunc(spy.body.String())), "empty-result-wrote/two-closures-of-one-literal"
		}
	}
	return "", ""
}

// c14Reps picks one value of every outcome class of the table (wrote a body, failed, wrote nothing,
// non-200 status) for the shape: the earlier request of the two-request histories.
func c14Reps(shape string, vals []c14Vals, allErrKinds bool) []c14Vals {
	seen := map[string]bool{}
	var out []c14Vals
	for _, v := range vals {
		e := v.Err
		if !allErrKinds && e != "nil" {
			e = "non-nil"
		}
		cls := fmt.Sprintf("%v/%v/%v/%v/%v", v.S == "", len(v.B) == 0, e, v.Code == 200, v.PNil)
		if len(v.S) > 1 || len(v.B) > 1 || seen[cls] {
			continue
		}
		seen[cls] = true
		out = append(out, v)
	}
	return out
}

// c14Shrink looks for the shortest history on a fresh instance that shows the mismatch seen at vals[vi]
// after vals[:vi] were served on one instance: none, one earlier request, else the whole prefix.
func c14Shrink(shape, pos, custom string, vals []c14Vals, vi int) c14Case {
	c := c14Case{Shape: shape, Position: pos, Custom: custom, V: vals[vi]}
	if bad, _, _ := c14Eval(c14Build(shape, pos, custom), shape, vals[vi]); bad != "" {
		return c
	}
	for i := 0; i < vi; i++ {
		w := c14Build(shape, pos, custom)
		c14Eval(w, shape, vals[i])
		if bad, _, _ := c14Eval(w, shape, vals[vi]); bad != "" {
			c.Prev = []c14Vals{vals[i]}
			return c
		}
	}
	c.Prev = append([]c14Vals{}, vals[:vi]...)
	return c
}

func c14Eval(w *c14World, shape string, v c14Vals) (bad, kind string, defined bool) {
	bad, kind, defined = c14EvalM(w, shape, v, "GET")
	if bad == "" && defined && w.custom == "" {
		// the table does not depend on the request method: the same values for a HEAD request (the body is
		// not forwarded then; status and whether the chain goes on are as for GET)
		if b, k, _ := c14EvalM(w, shape, v, "HEAD"); b != "" {
			return "HEAD request: " + b, k + "/HEAD", true
		}
	}
	return bad, kind, defined
}

func c14EvalM(w *c14World, shape string, v c14Vals, method string) (bad, kind string, defined bool) {
	w.v = v
	w.nextRan, w.customN, w.customV, w.seen = false, 0, nil, nil
	spy := &c01Spy{hdr: http.Header{}}
	var pan interface{}
	func() {
		defer func() { pan = recover() }()
		if w.mounted {
			outer := flamego.NewResponseWriter(method, spy)
			_, _ = outer.Write([]byte("["))
			w.f.ServeHTTP(outer, newReq(method, "/"))
			return
		}
		w.f.ServeHTTP(spy, newReq(method, "/"))
	}()
	if pan != nil {
		return fmt.Sprintf("ServeHTTP panicked: %v", pan), "panic", true
	}
	w.lastCode = spy.code
	if w.mounted {
		want := c14Table(shape, v, w.err(), w.bytes())
		if !want.Defined {
			return "", "", false
		}
		pre := "["
		if method == "HEAD" {
			pre, want.Body = "", ""
		}
		switch {
		case want.Wrote && w.nextRan:
			return fmt.Sprintf("mounted below a handler that had written: the value must be written (body %q) but the chain went on", want.Body), "chain-continued-after-write/mounted", true
		case want.Wrote && spy.body.String() != pre+want.Body:
			return fmt.Sprintf("mounted below a handler that had written %q: body %q, the table appends %q", pre, trunc(spy.body.String()), trunc(want.Body)), "wrong-response/mounted", true
		case !want.Wrote && !w.nextRan:
			return fmt.Sprintf("mounted below a handler that had written: a nil/empty/zero result writes nothing, so the chain goes on, but the next handler did not run (body %q)", spy.body.String()), "empty-result-stops-chain/mounted", true
		case !want.Wrote && spy.body.String() != pre:
			return fmt.Sprintf("mounted below a handler that had written: a nil/empty/zero result wrote %q", spy.body.String()), "empty-result-wrote/mounted", true
		}
		return "", "", true
	}
	if w.custom != "" {
		// the registered return handler replaces the table: called once with the values, default writes nothing
		wantN := 1
		if w.custom == "app" || w.custom == "request" {
			wantN = 1
		}
		if w.customN != wantN {
			return fmt.Sprintf("custom ReturnHandler (%s scope) called %d times", w.custom, w.customN), "custom-not-used", true
		}
		if !w.nextRan || spy.code != 299 || spy.body.Len() != 0 {
			return fmt.Sprintf("custom ReturnHandler mapped, yet the response is status %d body %q (next ran: %v)", spy.code, spy.body.String(), w.nextRan), "custom-not-exclusive", true
		}
		return "", "", true
	}
	want := c14Table(shape, v, w.err(), w.bytes())
	if !want.Defined {
		return "", "", false
	}
	if method == "HEAD" {
		want.Body = ""
	}
	if want.Wrote {
		if w.nextRan {
			return fmt.Sprintf("returned value must be written (status %d body %q) but the chain went on to the next handler", want.Status, want.Body), "chain-continued-after-write", true
		}
		if spy.code != want.Status || spy.body.String() != want.Body {
			return fmt.Sprintf("response status %d body %q, table says status %d body %q", spy.code, trunc(spy.body.String()), want.Status, trunc(want.Body)), "wrong-response", true
		}
		if w.wrapped && method != "HEAD" && string(w.seen) != want.Body {
			return fmt.Sprintf("the body %q reached the client but only %q went through the Write of the http.ResponseWriter the request has mapped", trunc(want.Body), trunc(string(w.seen))), "body-bypasses-mapped-writer", true
		}
		return "", "", true
	}
	if !w.nextRan {
		return fmt.Sprintf("nil/empty/zero result must write nothing so the chain continues, but the next handler did not run (status %d body %q)", spy.code, spy.body.String()), "empty-result-stops-chain", true
	}
	if spy.code != 299 || spy.body.Len() != 0 {
		return fmt.Sprintf("nil/empty/zero result wrote something: status %d body %q", spy.code, spy.body.String()), "empty-result-wrote", true
	}
	return "", "", true
}

func trunc(s string) string {
	if len(s) > 40 {
		return s[:40] + fmt.Sprintf("...(%d bytes)", len(s))
	}
	return s
}

func c14Values(shape string, thorough bool) []c14Vals {
	var strs []string
	strs = append(strs, "", "x", "hello", strings.Repeat("k", 1024))
	for b := 0; b < 256; b++ {
		strs = append(strs, string([]byte{byte(b)}))
	}
	errs := []string{"nil", "errors.New", "struct", "pointer", "empty-struct", "zero-int", "empty-string-kind", "percent", "percent-verbs", "slice-typed", "struct-with-slice"}
	codes := []int{200}
	hasInt := strings.HasPrefix(shape, "(int")
	if hasInt {
		codes = nil
		for c := 100; c <= 999; c++ { // everything net/http accepts as a status code
			codes = append(codes, c)
		}
	}
	var out []c14Vals
	usesS := strings.Contains(shape, "string")
	usesB := strings.Contains(shape, "[]byte")
	usesE := strings.Contains(shape, "error")
	usesP := strings.HasPrefix(shape, "*")
	for _, code := range codes {
		payloads := strs
		if hasInt && code != 200 && code != 404 && !thorough {
			payloads = []string{"", "x"}
		} else if hasInt && code != 200 && code != 404 {
			payloads = []string{"", "x", "\x00", "\xff", "hello"}
		}
		if !usesS && !usesB {
			payloads = []string{""}
		}
		for _, s := range payloads {
			es := []string{"nil"}
			if usesE {
				es = errs
			}
			for _, e := range es {
				v := c14Vals{Code: code, Err: e}
				if usesS {
					v.S = s
				}
				if usesB {
					v.B = []byte(s)
					if s == "" {
						// both the nil slice and the empty non-nil slice
						v2 := v
						v2.BNil = true
						out = append(out, v2)
						v.B = nil
					}
				}
				out = append(out, v)
				if usesP && s == "" {
					v3 := v
					v3.PNil = true
					out = append(out, v3)
				}
			}
		}
	}
	return out
}

func c14Run(r *core.Run) {
	r.SetBudget(70 * time.Second)
	if r.Thorough() {
		r.SetBudget(10 * time.Minute)
	}
	r.Rule = "engine E: every supported return shape x every value (empty, nil, all 256 single bytes, 1 KiB, every status 100..999, nil / errors.New / struct / pointer-receiver errors, messages with percent signs and verbs, nil pointers) x position {first of two handlers, last before the action, application middleware} x {default table, custom ReturnHandler at application scope, at request scope, mapped late, default table below a middleware that maps http.ResponseWriter to an embedding writer with a Write of its own, default table in an application served from inside another application's handler on its flamego.ResponseWriter after that handler has written}; all values served in sequence on one instance, plus every two-request history (one value of each outcome class, then every value) on a fresh instance, and every cross-shape history (one value of each outcome class of every shape on one route, then one of each class of this shape on another route of the same instance, then the first again); oracle = the statement's table, 'wrote nothing' observed as 'the next handler ran'; non-trivial = value that is nil/empty/zero, an error, or a non-200 status"
	r.Assumptions = []string{"a non-nil pointer to an empty value is not covered by the statement and is asserted neither way (counted)", "status codes outside 100..999 (what net/http accepts) are outside the quantifier", "'the response' is what the http.ResponseWriter mapped for the request is given: where a middleware has mapped a writer of its own, a rendered body goes through that writer's Write (as on the pinned tree, for every shape alike)"}
	positions := []string{"first-of-two", "last", "middleware"}
	customs := []string{"", "app", "request", "request-late", "app-late", "wrapped-writer", "mounted"}
	type job struct{ shape, pos, custom string }
	var jobs []job
	for _, s := range c14Shapes {
		for _, p := range positions {
			for _, c := range customs {
				jobs = append(jobs, job{s, p, c})
			}
		}
	}
	r.Bounds["shapes"] = c14Shapes
	r.Bounds["positions"] = positions
	r.Parallel(func(w, nw int, l *core.Local) {
		for ji := w; ji < len(jobs); ji += nw {
			if r.Expired() {
				return
			}
			j := jobs[ji]
			world := c14Build(j.shape, j.pos, j.custom)
			l.States++
			vals := c14Values(j.shape, r.Thorough())
			for vi, v := range vals {
				if j.custom != "" && vi%7 != 0 {
					continue
				}
				l.Evals++
				l.Transitions++
				l.Traces++
				bad, kind, defined := c14Eval(world, j.shape, v)
				if !defined {
					l.Extra["undefined_by_statement(non-nil pointer to empty)"]++
					continue
				}
				if v.Err != "nil" || v.Code != 200 || (v.S == "" && len(v.B) == 0) {
					l.NonTrivial++
				}
				if bad != "" {
					l.Class("mismatch")
					k := kind + "/" + j.shape
					if kind == "empty-result-stops-chain" && v.B == nil && !v.BNil && strings.Contains(j.shape, "[]byte") {
						k += "/empty-non-nil-slice"
					}
					cs := c14Shrink(j.shape, j.pos, j.custom, vals, vi)
					if len(cs.Prev) > 0 {
						k += "/after-earlier-requests"
					}
					l.Violate(k, bad+fmt.Sprintf(" [shape %s, position %s, values %+v, %d earlier request(s) on the instance]", j.shape, j.pos, v, len(cs.Prev)), cs)
					continue
				}
				switch {
				case j.custom == "wrapped-writer":
					l.Class("default-table-below-a-mapped-writer")
				case j.custom == "mounted":
					l.Class("default-table-mounted-below-a-handler-that-had-written")
				case j.custom != "":
					l.Class("custom-return-handler")
				case world.nextRan:
					l.Class("wrote-nothing:chain-continued")
				default:
					l.Class(fmt.Sprintf("wrote:%dxx", world.lastStatus()/100))
				}
				if vi%401 == 0 {
					l.Sample(c14Case{Shape: j.shape, Position: j.pos, Custom: j.custom, V: c14Vals{S: trunc(v.S), Err: v.Err, Code: v.Code, BNil: v.BNil, PNil: v.PNil}})
				}
			}
			// two-request histories on a fresh instance: (one value of every outcome class, every value)
			if j.custom != "" {
				continue
			}
			if j.pos == "first-of-two" {
				reps := c14Reps(j.shape, vals, true)
				for _, va := range reps {
					for _, vb := range reps {
						l.Evals++
						l.Transitions += 3
						l.Traces++
						l.NonTrivial++
						l.States++
						if bad, kind := c14Twins(j.shape, va, vb); bad != "" {
							l.Class("mismatch")
							vbc := vb
							l.Violate(kind+"/"+j.shape, bad+fmt.Sprintf(" [shape %s, values %+v and %+v]", j.shape, va, vb), c14Case{Shape: j.shape, Position: "twins", V: va, Twin: &vbc})
						} else {
							l.Class("two-closures-of-one-literal")
						}
					}
				}
			}
			if j.pos == "last" {
				// histories across shapes: a request to a route of every other shape first
				repsB := c14Reps(j.shape, vals, false)
				for _, sa := range c14Shapes {
					for _, va := range c14Reps(sa, c14Values(sa, false), false) {
						for _, vb := range repsB {
							l.Evals++
							l.Transitions += 3
							l.Traces++
							l.NonTrivial++
							l.States++
							l.Extra["cross_shape_histories"]++
							if bad, kind := c14Cross(sa, va, j.shape, vb); bad != "" {
								l.Class("mismatch")
								l.Violate(kind+"/"+j.shape, bad+fmt.Sprintf(" [values %+v (shape %s) then %+v (shape %s)]", va, sa, vb, j.shape), c14Case{Shape: j.shape, Position: "cross-shape", V: vb, PrevShape: sa, Prev: []c14Vals{va}})
							} else {
								l.Class("after-a-request-of-another-shape")
							}
						}
					}
				}
			}
			reps := c14Reps(j.shape, vals, r.Thorough())
			for _, prev := range reps {
				for _, v := range vals {
					if len(v.S) > 1 || len(v.B) > 1 || (v.Code != 200 && v.Code%100 > 4 && !r.Thorough()) {
						continue
					}
					fresh := c14Build(j.shape, j.pos, j.custom)
					c14Eval(fresh, j.shape, prev)
					l.Evals++
					l.Transitions += 2
					l.Traces++
					l.States++
					l.Extra["two_request_histories"]++
					bad, kind, defined := c14Eval(fresh, j.shape, v)
					if !defined {
						continue
					}
					l.NonTrivial++
					if bad != "" {
						l.Class("mismatch")
						l.Violate(kind+"/"+j.shape+"/after-earlier-requests", bad+fmt.Sprintf(" [shape %s, position %s, values %+v after a request that returned %+v]", j.shape, j.pos, v, prev), c14Case{Shape: j.shape, Position: j.pos, Custom: j.custom, V: v, Prev: []c14Vals{prev}})
						continue
					}
					l.Class("second-request-as-on-a-fresh-instance")
				}
			}
		}
	})
}

func (w *c14World) lastStatus() int { return w.lastCode }

func c14Replay(raw json.RawMessage) (bool, string) {
	var c c14Case
	if err := json.Unmarshal(raw, &c); err != nil {
		return false, err.Error()
	}
	if c.Twin != nil {
		bad, _ := c14Twins(c.Shape, c.V, *c.Twin)
		return bad != "", bad
	}
	if c.PrevShape != "" && len(c.Prev) == 1 {
		bad, _ := c14Cross(c.PrevShape, c.Prev[0], c.Shape, c.V)
		return bad != "", bad
	}
	w := c14Build(c.Shape, c.Position, c.Custom)
	for _, p := range c.Prev {
		c14Eval(w, c.Shape, p)
	}
	bad, _, _ := c14Eval(w, c.Shape, c.V)
	return bad != "", bad
}

func init() {
	core.Register(&core.Check{ID: "C14", Run: c14Run, Replay: c14Replay})
}
