package checks

import (
	"encoding/json"
	"fmt"
	"io"
	"net/http"
	"net/url"
	"strings"
	"time"

	"github.com/flamego/flamego"
	"github.com/flamego/flamego/internal/route"
	"github.com/flamego/flamego/verifharness/core"
	"github.com/flamego/flamego/verifharness/ref"
)

// ---- C02: bind parameters are exactly what the pattern captured (engine E) ----

type c02Elem struct {
	text  string   // route syntax, %d is replaced by the position
	cands []string // candidate raw texts for this element in a request path
	class string   // shape class for finding keys
}

// ("+%61", "a+%2Fb": a plus sign next to an escape - a path is not a query string, the plus stays a plus)
var c02BindCands = []string{"a", "b", "ab", "1", "12", "a%2Fb", "%61", "%zz", "%2561", "%", "ba", "\n", "a\nb", "\x00", "\xff", "A", "aB", "+%61", "a+%2Fb", "a:b", "a?", "(a)", "a(b", "?:", "ab ", " a", "a "}

func c02Elements(full bool) []c02Elem {
	var out []c02Elem
	lits := []c02Elem{
		{text: "a", cands: []string{"a", "A"}, class: "plain"},
		{text: "a+b", cands: []string{"a+b", "aab", "ab"}, class: "regex-active-literal"},
		{text: "a.b", cands: []string{"a.b", "axb"}, class: "plain"},
		{text: "(v)", cands: []string{"(v)", "v"}, class: "regex-active-literal"},
	}
	exprsFull := []string{`a`, `[ab]+`, `a|b`, `(a|b)+`, `a(b)?`, `\d+`, `.*`, `(?i)(a|b)`, // a flag that must stay inside its own expression
		`[ab()]+`, `(a|[(b])+`, `a\(b`, // parentheses that are no groups: inside a class, escaped
		`[ab]+ `, ` a`} // a blank at the end / at the start of the expression is part of it
	exprsRed := []string{`[ab]+`, `(a|b)+`, `\d+`, `.*`, `[ab()]+`}
	cls := func(e string) string {
		if strings.HasPrefix(e, "(?i)") {
			return "flag-group"
		}
		if strings.Contains(e, "(") {
			return "own-group"
		}
		return "plain"
	}
	if full {
		out = append(out, lits...)
		out = append(out, c02Elem{text: "{x%d}", cands: c02BindCands, class: "plain"})
		for _, e := range exprsFull {
			out = append(out, c02Elem{text: "{y%d: /" + e + "/}", cands: c02BindCands, class: cls(e)})
		}
		for _, e := range []string{`a`, `[ab]+`, `(a|b)+`, `.*`} {
			for _, e2 := range []string{`a`, `[ab]+`, `(a|b)+`, `.*`} {
				c := "multi-param"
				if cls(e) == "own-group" || cls(e2) == "own-group" {
					c = "own-group"
				}
				out = append(out, c02Elem{text: "{y%d: /" + e + "/, z%d: /" + e2 + "/}", cands: []string{"ab", "aab", "ba", "a", "abab", "a1"}, class: c})
			}
		}
		return out
	}
	out = append(out, lits[0], lits[1])
	out = append(out, c02Elem{text: "{x%d}", cands: []string{"a", "b", "ab", "1", "%61"}, class: "plain"})
	for _, e := range exprsRed {
		out = append(out, c02Elem{text: "{y%d: /" + e + "/}", cands: []string{"a", "b", "ab", "1", "12"}, class: cls(e)})
	}
	return out
}

type c02Seg struct {
	text  string
	cands []string
	class string
}

func c02IsLit(e c02Elem) bool { return !strings.HasPrefix(e.text, "{") }

func c02Segments(thorough bool) []c02Seg {
	var out []c02Seg
	full, red := c02Elements(true), c02Elements(false)
	mk := func(es []c02Elem) {
		for i := 1; i < len(es); i++ {
			if c02IsLit(es[i]) && c02IsLit(es[i-1]) {
				return
			}
		}
		txt, class := "", "plain"
		cands := []string{""}
		for i, e := range es {
			txt += strings.ReplaceAll(e.text, "%d", fmt.Sprint(i+1))
			if e.class != "plain" {
				if class == "plain" || e.class == "own-group" {
					class = e.class
				}
			}
			var next []string
			for _, c := range cands {
				for _, v := range e.cands {
					next = append(next, c+v)
				}
			}
			cands = next
		}
		if len(es) > 1 && class == "plain" {
			class = "multi-element"
		}
		out = append(out, c02Seg{text: txt, cands: cands, class: class})
	}
	for _, a := range full {
		mk([]c02Elem{a})
	}
	for _, a := range full {
		for _, b := range full {
			mk([]c02Elem{a, b})
		}
	}
	for _, a := range red {
		for _, b := range red {
			for _, c := range red {
				mk([]c02Elem{a, b, c})
			}
		}
	}
	_ = thorough
	return out
}

func stringsOver(alpha []string, maxLen int) []string {
	var out []string
	var rec func(p string, d int)
	rec = func(p string, d int) {
		for _, a := range alpha {
			s := p + a
			out = append(out, s)
			if d+1 < maxLen {
				rec(s, d+1)
			}
		}
	}
	rec("", 0)
	return out
}

func decode1(s string) string {
	if u, err := url.PathUnescape(s); err == nil {
		return u
	}
	return s
}

// c02Qualify makes the finding key specific for the one known input class: a newline inside the
// value of a bare {x} that shares its segment with other elements.
func c02Qualify(kind, segText, raw string) string {
	if kind == "notfound-while-admitted" && strings.Contains(raw, "\n") && strings.Contains(segText, "{x") && strings.Count(segText, "{")+strings.Count(segText, "}") < len(segText) {
		return "/newline-in-wildcard-bind"
	}
	return ""
}

type c02Case struct {
	Route string `json:"route"`
	Path  string `json:"path"`
	Flame bool   `json:"flame_level,omitempty"`
	// Spelled: the route was registered in this other spelling of the same route (blanks after ':' and ',')
	Spelled string `json:"registered_spelling,omitempty"`
	// sequence mode: Routes on one tree, History matched first (in order), then Path; the answer for Path
	// must be the one a fresh tree gives
	Routes  []string `json:"routes,omitempty"`
	History []string `json:"earlier_requests_on_the_same_tree,omitempty"`
}

// c02SeqRoutes / c02SeqPaths: the request sequences on trees with one or two routes.
var c02SeqRoutes = []string{"/n/{x}/e", "/a/?{x}", "/{x}/{y}/{z}", "/n/?{m: **}", "/{m: **}/{x}", "/n/{x}/?{y}", "/{r: /[an]+/}/e", "/{m: **, capture: 2}/e", "/a/{x}-{y}/n", "/e", "/{v}/e", "/{u}/n/{w}", "/{t: /[an]+/}/n",
	// the same regex segment (a grouped bind followed by another bind) as the end of one route and in the middle of another
	"/n/{g: /(a|n)e/}-{x}", "/n/{g: /(a|n)e/}-{x}/e",
	// a bind whose expression is a complete group of its own, a route whose whole regex segment reads the same
	// once assembled, and both in one route
	"/e/{q: /([an]+)/}", "/a/{s: /[an]+/}", "/{q: /([an]+)/}/{s: /[an]+/}/n",
	// below one bind segment: a regex subtree that takes the segment and fails further down, then a placeholder
	// subtree / the match-all leaf that takes over (the values captured above the turning point stay)
	"/{x}/{r: /[an]+/}/e", "/{x}/{y}/n", "/{x}/{m: **}",
	// four bind-carrying segments deep: a regex segment below a regex segment below two placeholders, and a
	// placeholder sibling of the inner one (what a sibling is called is no business of a registered route)
	"/{x}/{y}/{k: /a|n/}/{i: /[an]+/}/e", "/{x}/{y}/{k: /a|n/}/{l}", "/{x}/{y}/{k: /a|n/}/{j: /e+/}",
	// two routes that go on differently below one match-all segment in the middle (how many segments it took for
	// an earlier request is no business of the next)
	"/{m: **}/n", "/{m: **}/e/{x}", "/a/{m: **}/n/{x}/{y}", "/a/{m: **}/e/{x}"}

type c02Ans struct {
	found  bool
	leaf   string
	params string
}

func c02Answer(tree route.Tree, raw string) c02Ans {
	leaf, params, found, pan := safeMatch(tree, raw, nil)
	if pan != nil {
		return c02Ans{leaf: fmt.Sprintf("panic: %v", pan)}
	}
	a := c02Ans{found: found}
	if found {
		a.leaf = leaf.Route()
		a.params = fmtParams(params)
	}
	return a
}

// c02Refused marks an entry of a route list as an attempt that the tree refuses (the entry is tried in its
// place and leaves the tree as it was).
const c02Refused = "REFUSED:"

// c02Accepted: the entries of a route list that are registered.
func c02Accepted(routes []string) []string {
	var out []string
	for _, r := range routes {
		if !strings.HasPrefix(r, c02Refused) {
			out = append(out, r)
		}
	}
	return out
}

func c02SeqTree(p *route.Parser, routes []string) (route.Tree, bool) {
	tree := route.NewTree()
	for _, text := range routes {
		cat, bad := mkCatalogue(p, []string{strings.TrimPrefix(text, c02Refused)})
		if len(bad) > 0 || len(cat) != 1 {
			return nil, false
		}
		_, err, pan := safeAddRoute(tree, cat[0].AST)
		if strings.HasPrefix(text, c02Refused) {
			if err == nil && pan == nil {
				return nil, false // accepted after all: C08's business
			}
			continue
		}
		if err != nil || pan != nil {
			return nil, false
		}
	}
	return tree, true
}

// c02SeqReplay: History then Path on one fresh tree against Path alone on another.
func c02SeqReplay(p *route.Parser, c c02Case) (bool, string) {
	if c.Route != "" {
		t, ok := c02SeqTree(p, c.Routes)
		cat, _ := mkCatalogue(p, []string{c.Route})
		if !ok || len(cat) != 1 {
			return false, "routes not registrable as recorded"
		}
		leaf, params, found, pan := safeMatch(t, c.Path, nil)
		if pan != nil || !found || leaf.Route() != c.Route {
			return false, "the recorded route is not the one chosen"
		}
		bad, _, _ := c02Judge(ref.NewMatcher(), cat[0].Ref, c.Path, true, params)
		return bad != "", bad
	}
	t1, ok1 := c02SeqTree(p, c.Routes)
	t2, ok2 := c02SeqTree(p, c.Routes)
	if !ok1 || !ok2 {
		return false, "routes not registrable as recorded"
	}
	for _, h := range c.History {
		c02Answer(t1, h)
	}
	got, want := c02Answer(t1, c.Path), c02Answer(t2, c.Path)
	if got != want {
		return true, fmt.Sprintf("after %d earlier requests the tree answers %q with %+v, a fresh tree with %+v", len(c.History), c.Path, got, want)
	}
	return false, ""
}

// c02Sequences: what Match hands out is a function of the routes and the path, not of earlier requests:
// every ordered pair of paths on every tree of one or two routes, compared with a fresh tree.
func c02Sequences(r *core.Run, p *route.Parser) {
	// (%2561 decodes once to %61: a value that a second decoding would change)
	paths := pathsOver([]string{"a", "n", "e", "%2561"}, 3, []string{"/a/a-a/n", "/a/a-/n", "/n/a/e/e", "/a/%2561-%2561/n", "/n/ae-a", "/n/ae-n/e", "/n/ne-a/e", "/n/ne-%2561", "/n/ae-n", "/a/ea", "/a/ean", "/e/ea", "/e/na", "/a/an", "/a/ea/n", "/ea/a/n", "/an/na/n", "/a/n/a/an/e", "/e/e/n/a/e", "/a/n/a/e", "/a/n/n/ee", "/e/a/a/na/e", "/a/a/a/a", "/a/a/a/e/n", "/a/a/n/e/n", "/a/n/e/n/e", "/a/a/n/n/e/a"})
	r.Bounds["sequence_routes"] = c02SeqRoutes
	r.Bounds["sequence_paths"] = len(paths)
	n := len(c02SeqRoutes)
	r.Parallel(func(w, nw int, l *core.Local) {
		m := ref.NewMatcher()
		for cc := w; cc < 2*n*n; cc += nw {
			if r.Expired() {
				return
			}
			c := cc % (n * n)
			routes := []string{c02SeqRoutes[c/n], c02SeqRoutes[c%n]}
			if c/n == c%n {
				routes = routes[:1]
			}
			if cc >= n*n {
				// between the two registrations an attempt that is refused only after it has gone two segments
				// deep below a literal of its own (it leaves the tree as it was)
				if len(routes) < 2 {
					continue
				}
				routes = []string{routes[0], c02Refused + "/e/{q}/{q}", routes[1]}
			}
			tree, ok := c02SeqTree(p, routes)
			if !ok {
				l.Extra["sequence_trees_not_registrable(C08)"]++
				continue
			}
			l.States++
			fresh := make([]c02Ans, len(paths))
			cat, _ := mkCatalogue(p, c02Accepted(routes))
			for i, pth := range paths {
				t, _ := c02SeqTree(p, routes)
				fresh[i] = c02Answer(t, pth)
				// the values handed out with the chosen route are that route's own captures
				if leaf, params, found, pan := safeMatch(t, pth, nil); found && pan == nil {
					for _, cr := range cat {
						if cr.Text != leaf.Route() {
							continue
						}
						l.Evals++
						l.Traces++
						l.Transitions++
						if bad, kind, _ := c02Judge(m, cr.Ref, pth, true, params); bad != "" {
							l.Class("mismatch")
							l.Violate(kind+"/two-route-tree", bad+fmt.Sprintf(" [routes %q, chosen %q, path %q]", routes, cr.Text, pth), c02Case{Routes: routes, Path: pth, Route: cr.Text})
						}
					}
				}
			}
			var history []string
			for _, p1 := range paths {
				for i2, p2 := range paths {
					c02Answer(tree, p1)
					got := c02Answer(tree, p2)
					l.Evals++
					l.Transitions += 2
					l.Traces++
					l.Extra["two_request_sequences"]++
					if fresh[i2].found {
						l.NonTrivial++
					}
					if got != fresh[i2] {
						cs := c02Case{Routes: routes, History: []string{p1}, Path: p2}
						if rep, _ := c02SeqReplay(p, cs); !rep {
							cs.History = append(append([]string{}, history...), p1)
						}
						l.Class("mismatch")
						l.Violate("answer-depends-on-earlier-requests", fmt.Sprintf("routes %q: after earlier requests (last %q) the tree answers %q with %+v, a fresh tree with %+v", routes, p1, p2, got, fresh[i2]), cs)
					} else if got.found {
						l.Class("sequence:second-request-as-on-a-fresh-tree")
					} else {
						l.Class("not-dispatched")
					}
					history = append(history, p1, p2)
				}
			}
		}
	})
}

// c02Judge compares what the implementation handed out with the reference alignments.
// got==nil means "not dispatched".
func c02Judge(m *ref.Matcher, r ref.Route, raw string, found bool, got map[string]string) (bad, kind string, nontrivial bool) {
	segs := ref.SplitPath(raw)
	forms := r.Forms()
	any := false
	explained := false
	for _, form := range forms {
		var binds []string
		for _, s := range form {
			binds = append(binds, s.Binds()...)
		}
		m.Alignments(form, segs, func(a map[string]string) bool {
			any = true
			if !found {
				return false
			}
			ok := true
			for _, b := range binds {
				v, has := got[b]
				if !has || v != decode1(a[b]) {
					ok = false
					break
				}
			}
			if ok {
				explained = true
				return false
			}
			return true
		})
		if explained {
			break
		}
	}
	if found && !any {
		return fmt.Sprintf("dispatched with parameters {%s} although the route does not admit the path", fmtParams(got)), "dispatch-without-admission", true
	}
	if !found && any {
		return "not dispatched although the route admits the path", "notfound-while-admitted", true
	}
	if !found {
		return "", "", false
	}
	nontrivial = len(r.Binds()) >= 2 || strings.Contains(raw, "%")
	if !explained {
		// describe one legitimate alignment for the report
		example := ""
		m.Alignments(forms[0], segs, func(a map[string]string) bool {
			d := map[string]string{}
			for k, v := range a {
				d[k] = decode1(v)
			}
			example = fmtParams(d)
			return false
		})
		return fmt.Sprintf("handlers receive {%s}; no alignment of the route to the path yields these values (a legitimate one: {%s})", fmtParams(got), example), "value-mismatch", true
	}
	return "", "", nontrivial
}

func c02TreeEval(m *ref.Matcher, cr catRoute, raw string) (bad, kind string, nt bool, found bool) {
	tree := route.NewTree()
	if _, err, pan := safeAddRoute(tree, cr.AST); err != nil || pan != nil {
		return "", "unregistrable", false, false
	}
	return c02TreeEvalOn(m, tree, cr, raw)
}

func c02TreeEvalOn(m *ref.Matcher, tree route.Tree, cr catRoute, raw string) (bad, kind string, nt bool, found bool) {
	_, params, found, pan := safeMatch(tree, raw, nil)
	if pan != nil {
		return fmt.Sprintf("Tree.Match panicked: %v", pan), "panic", true, false
	}
	bad, kind, nt = c02Judge(m, cr.Ref, raw, found, params)
	return
}

type c02Embedding struct {
	name string
	mk   func(seg string) string // route text
	path func(text string) string
	opt  bool
}

var c02Embeddings = []c02Embedding{
	{"alone", func(s string) string { return "/" + s }, func(t string) string { return "/" + t }, false},
	// followed by another bind-carrying segment (registering the later segment looks at the binds of this one)
	{"before-placeholder", func(s string) string { return "/" + s + "/{w}" }, func(t string) string { return "/" + t + "/n" }, false},
	{"final", func(s string) string { return "/n/" + s }, func(t string) string { return "/n/" + t }, false},
	{"non-final", func(s string) string { return "/" + s + "/n" }, func(t string) string { return "/" + t + "/n" }, false},
	{"middle", func(s string) string { return "/n/" + s + "/e" }, func(t string) string { return "/n/" + t + "/e" }, false},
	{"optional", func(s string) string { return "/n/?" + s }, func(t string) string { return "/n/" + t }, true},
	{"between-binds", func(s string) string { return "/{v}/" + s + "/{w: /[en]+/}" }, func(t string) string { return "/n/" + t + "/e" }, false},
}

func c02Run(r *core.Run) {
	p, err := route.NewParser()
	if err != nil {
		panic(err)
	}
	r.Rule = "engine E: every generated regex-style / placeholder / match-all segment (1..3 elements over literals incl. regex-active ones, {x}, {y: /E/}, two-parameter lists; E incl. own groups and alternations) embedded alone / before a placeholder segment / final / non-final / middle / optional / between two bind-carrying segments, x every candidate path text (all strings <=L (3, thorough 6) over {a,b,1,+,.,-} plus per-element candidate products incl. %-escapes); plus every ordered pair of requests on every tree of one or two routes of a second catalogue (the second answer must be a fresh tree's); oracle: dispatched iff admitted, and SOME alignment of the route to the raw path exists whose once-decoded captures equal the received values; non-trivial = dispatched and (>=2 binds or an escape in the path)"
	r.Assumptions = []string{"Go regexp trusted, used per expression alone", "parameters left over from abandoned branches are not flagged (documented by Tree.Match); only the matched route's binds are compared", "expressions whose meaning depends on context (anchors, \\b) are outside the alphabet"}
	maxLen := 3
	r.SetBudget(70 * time.Second)
	if r.Thorough() {
		maxLen = 6
		r.SetBudget(12 * time.Minute)
	}
	segs := c02Segments(r.Thorough())
	generic := stringsOver([]string{"a", "b", "1", "+", ".", "-"}, maxLen)
	generic = append(generic, "", "(v)", "a(v)", "%61", "a%2Fb", "+%61", "a+b%2B")
	r.Bounds["segments"] = len(segs)
	r.Bounds["generic_texts_per_segment"] = len(generic)
	{
		var names []string
		for _, e := range c02Embeddings {
			names = append(names, e.name)
		}
		r.Bounds["embeddings"] = names
	}
	type job struct {
		cr    catRoute
		seg   c02Seg
		emb   c02Embedding
		texts []string
	}
	var jobs []job
	unparse := 0
	for _, sg := range segs {
		texts := append(append([]string{}, generic...), sg.cands...)
		for ei, emb := range c02Embeddings {
			if !r.Thorough() && ei >= 3 && len(sg.cands) > 40 {
				// quick: the first three embeddings for the big products, all seven for the rest
				continue
			}
			cat, bad := mkCatalogue(p, []string{emb.mk(sg.text)})
			if len(bad) > 0 {
				unparse++
				continue
			}
			jobs = append(jobs, job{cat[0], sg, emb, texts})
		}
	}
	r.Notes["routes_unparseable(C06)"] = unparse
	r.Parallel(func(w, nw int, l *core.Local) {
		m := ref.NewMatcher()
		for ji := w; ji < len(jobs); ji += nw {
			if r.Expired() {
				return
			}
			j := jobs[ji]
			tree := route.NewTree()
			if _, err, pan := safeAddRoute(tree, j.cr.AST); err != nil || pan != nil {
				l.Extra["routes_rejected_at_registration(C08)"]++
				continue
			}
			l.States++
			seen := map[string]bool{}
			for ti, t := range j.texts {
				if seen[t] {
					continue
				}
				seen[t] = true
				raw := j.emb.path(t)
				l.Evals++
				l.Transitions++
				l.Traces++
				bad, kind, nt, found := c02TreeEvalOn(m, tree, j.cr, raw)
				if nt {
					l.NonTrivial++
				}
				if bad == "" && found && strings.Contains(raw, "%") {
					// the same request again, straight away: the values are decoded once each time
					if b2, k2, _, _ := c02TreeEvalOn(m, tree, j.cr, raw); b2 != "" {
						l.Class("mismatch")
						l.Violate(k2+"/"+j.seg.class+"/same-request-again", b2+fmt.Sprintf(" [route %q, path %q requested twice in a row on one tree]", j.cr.Text, raw), c02Case{Routes: []string{j.cr.Text}, History: []string{raw}, Path: raw})
						continue
					}
				}
				if bad != "" {
					l.Class("mismatch")
					l.Violate(kind+"/"+j.seg.class+"/"+j.emb.name+c02Qualify(kind, j.seg.text, raw), bad+fmt.Sprintf(" [route %q, path %q]", j.cr.Text, raw), c02Case{Route: j.cr.Text, Path: raw})
					continue
				}
				if found {
					l.Class("dispatched:" + j.seg.class + ":" + j.emb.name)
					if nt && (ji+ti)%7919 == 0 {
						l.Sample(map[string]string{"route": j.cr.Text, "path": raw})
					}
				} else {
					l.Class("not-dispatched")
				}
			}
			if j.emb.opt { // the short form of the optional embedding
				for _, raw := range []string{"/n", "/n/", "//n"} {
					l.Evals++
					l.Transitions++
					l.Traces++
					bad, kind, _, _ := c02TreeEvalOn(m, tree, j.cr, raw)
					if bad != "" {
						l.Violate(kind+"/"+j.seg.class+"/optional-short", bad+fmt.Sprintf(" [route %q, path %q]", j.cr.Text, raw), c02Case{Route: j.cr.Text, Path: raw})
					}
				}
			}
		}
	})

	// match-all family
	maRoutes := []string{"/{m: **}", "/{m: **, capture: 2}", "/{**}", "/n/{m: **}/e", "/{m: **}/{x}", "/{m: **, capture: 2}/e", "/n/?{m: **}",
		"/{m: **}/e/{k: **}", "/{x}/{m: **, capture: 3}", "/{m: **, capture: 1}/{y: /[ab]+/}", "/n/{x}/?{y}", "/{x}/{y}/{z}"}
	maSegAlpha := []string{"a", "", "a%2Fb", "e", "n", "%zz", "+%61"}
	maPaths := pathsOver(maSegAlpha, 4, []string{"", "//n/a/e", "n/a/e"})
	if r.Thorough() {
		maPaths = pathsOver(maSegAlpha, 6, []string{"", "//n/a/e", "n/a/e"})
	}
	maCat, _ := mkCatalogue(p, maRoutes)
	r.Bounds["matchall_routes"] = len(maCat)
	r.Bounds["matchall_paths"] = len(maPaths)
	r.Parallel(func(w, nw int, l *core.Local) {
		m := ref.NewMatcher()
		for ci, cr := range maCat {
			tree := route.NewTree()
			if _, err, pan := safeAddRoute(tree, cr.AST); err != nil || pan != nil {
				continue
			}
			if w == 0 {
				l.States++
			}
			for pi := w; pi < len(maPaths); pi += nw {
				raw := maPaths[pi]
				l.Evals++
				l.Transitions++
				l.Traces++
				bad, kind, nt, found := c02TreeEvalOn(m, tree, cr, raw)
				if nt {
					l.NonTrivial++
				}
				if bad != "" {
					l.Class("mismatch")
					l.Violate(kind+"/matchall", bad+fmt.Sprintf(" [route %q, path %q]", cr.Text, raw), c02Case{Route: cr.Text, Path: raw})
				} else if found {
					l.Class("dispatched:matchall-family")
					if (ci+pi)%977 == 0 {
						l.Sample(map[string]string{"route": cr.Text, "path": raw})
					}
				} else {
					l.Class("not-dispatched")
				}
			}
		}
	})

	c02Sequences(r, p)

	// flame level: values as handlers see them, and the reserved `route` parameter
	flameJobs := jobs
	step := 1
	if !r.Thorough() {
		step = 7
	}
	r.Parallel(func(w, nw int, l *core.Local) {
		m := ref.NewMatcher()
		for ji := w * step; ji < len(flameJobs); ji += nw * step {
			if r.Expired() {
				return
			}
			j := flameJobs[ji]
			f, got, ok := c02FlameBuild(j.cr.Text)
			if !ok {
				continue
			}
			l.States++
			for _, t := range append(append([]string{}, j.seg.cands...), "\x00ROUTE-TEXT") {
				raw := j.emb.path(t)
				if t == "\x00ROUTE-TEXT" {
					raw = j.cr.Text // the request path is the route's own text (what a shortcut table would be keyed by)
				}
				l.Evals++
				l.Transitions++
				l.Traces++
				bad, kind := c02FlameEval(m, f, got, j.cr, raw)
				if bad != "" {
					l.Violate("flame/"+kind+"/"+j.seg.class+c02Qualify(kind, j.seg.text, raw), bad+fmt.Sprintf(" [route %q, path %q]", j.cr.Text, raw), c02Case{Route: j.cr.Text, Path: raw, Flame: true})
					l.Class("mismatch")
				} else {
					l.Class("flame:" + kind)
				}
			}
			// the same route registered in another spelling (no blank / several blanks after ':' and ','):
			// same dispatch, same values, and the reserved parameter is still the canonical text
			if sp := c02Respell(j.cr.Text); sp != j.cr.Text {
				if f2, got2, ok2 := c02FlameBuild(sp); ok2 {
					l.States++
					for _, t := range j.seg.cands {
						raw := j.emb.path(t)
						l.Evals++
						l.Transitions++
						l.Traces++
						l.Extra["flame_requests_on_respelled_routes"]++
						if bad, kind := c02FlameEval(m, f2, got2, j.cr, raw); bad != "" {
							l.Violate("flame/"+kind+"/respelled-route"+c02Qualify(kind, j.seg.text, raw), bad+fmt.Sprintf(" [route registered as %q (canonical %q), path %q]", sp, j.cr.Text, raw), c02Case{Route: j.cr.Text, Path: raw, Flame: true, Spelled: sp})
							l.Class("mismatch")
						} else {
							l.Class("flame:" + kind)
						}
					}
				}
			}
		}
	})
}

// c02Respell: another spelling of the same route: the blank after ':' dropped, three blanks after ','.
func c02Respell(text string) string {
	return strings.ReplaceAll(strings.ReplaceAll(text, ": ", ":"), ", ", ",   ")
}

type c02Got struct {
	ran    bool
	params map[string]string
	viaGet map[string]string
}

func c02FlameBuild(routeText string) (*flamego.Flame, *c02Got, bool) {
	f := flamego.NewWithLogger(io.Discard)
	got := &c02Got{}
	pan := func() (p interface{}) {
		defer func() { p = recover() }()
		f.Get(routeText, func(c flamego.Context) {
			got.ran = true
			got.params = map[string]string{}
			got.viaGet = map[string]string{}
			for k, v := range c.Params() {
				got.params[k] = v
				got.viaGet[k] = c.Param(k)
			}
			c.ResponseWriter().WriteHeader(204)
		})
		return nil
	}()
	return f, got, pan == nil
}

func c02FlameEval(m *ref.Matcher, f *flamego.Flame, got *c02Got, cr catRoute, raw string) (bad, kind string) {
	got.ran, got.params, got.viaGet = false, nil, nil
	spy := &c01Spy{hdr: http.Header{}}
	pan := func() (pv interface{}) {
		defer func() { pv = recover() }()
		f.ServeHTTP(spy, newReq("GET", raw))
		return nil
	}()
	if pan != nil {
		return fmt.Sprintf("ServeHTTP panicked: %v", pan), "panic"
	}
	b, k, _ := c02Judge(m, cr.Ref, raw, got.ran, got.params)
	if b != "" {
		return b, k
	}
	if !got.ran {
		return "", "not-dispatched"
	}
	if got.params["route"] != cr.Text {
		return fmt.Sprintf("reserved parameter route=%q, canonical route text is %q", got.params["route"], cr.Text), "route-param"
	}
	for k, v := range got.params {
		if got.viaGet[k] != v {
			return fmt.Sprintf("Param(%q)=%q differs from Params()[%q]=%q", k, got.viaGet[k], k, v), "param-accessor"
		}
	}
	return "", "dispatched"
}

func c02Replay(raw json.RawMessage) (bool, string) {
	var c c02Case
	if err := json.Unmarshal(raw, &c); err != nil {
		return false, err.Error()
	}
	p, _ := route.NewParser()
	if len(c.Routes) > 0 {
		return c02SeqReplay(p, c)
	}
	cat, bad := mkCatalogue(p, []string{c.Route})
	if len(bad) > 0 {
		return false, "route does not parse"
	}
	m := ref.NewMatcher()
	if c.Flame {
		reg := cat[0].Text
		if c.Spelled != "" {
			reg = c.Spelled
		}
		f, got, ok := c02FlameBuild(reg)
		if !ok {
			return false, "registration panicked"
		}
		b, _ := c02FlameEval(m, f, got, cat[0], c.Path)
		return b != "", b
	}
	b, kind, _, _ := c02TreeEval(m, cat[0], c.Path)
	if kind == "unregistrable" {
		return false, "route rejected at registration"
	}
	return b != "", b
}

func init() {
	core.Register(&core.Check{ID: "C02", Run: c02Run, Replay: c02Replay})
}
