package checks

import (
	"fmt"
	"net/http"
	"sort"
	"strings"

	"github.com/flamego/flamego/internal/route"
	"github.com/flamego/flamego/verifharness/ref"
)

// catRoute is one catalogue route: reference form, its text, and the AST the real parser built.
type catRoute struct {
	Ref  ref.Route
	Text string
	AST  *route.Route
}

// astToRef converts the real parser's AST into the reference representation.
func astToRef(a *route.Route) ref.Route {
	var r ref.Route
	for _, s := range a.Segments {
		sg := ref.Seg{Optional: s.Optional}
		for _, e := range s.Elements {
			switch {
			case e.Ident != nil:
				sg.Elems = append(sg.Elems, ref.Elem{Kind: ref.Lit, Text: *e.Ident})
			case e.BindIdent != nil:
				sg.Elems = append(sg.Elems, ref.Elem{Kind: ref.Bind, Text: *e.BindIdent})
			case e.BindParameters != nil:
				el := ref.Elem{Kind: ref.Params}
				for _, p := range e.BindParameters.Parameters {
					switch {
					case p.Value.Literal != nil:
						el.Params = append(el.Params, ref.Param{Name: p.Ident, Value: *p.Value.Literal})
					case p.Value.Regex != nil:
						el.Params = append(el.Params, ref.Param{Name: p.Ident, Value: *p.Value.Regex, IsRegex: true})
					default:
						el.Params = append(el.Params, ref.Param{Name: p.Ident, Value: "<no value>"})
					}
				}
				sg.Elems = append(sg.Elems, el)
			default:
				sg.Elems = append(sg.Elems, ref.Elem{Kind: ref.Lit, Text: "<empty element>"})
			}
		}
		r.Segs = append(r.Segs, sg)
	}
	r.Freeze()
	return r
}

// refEqual compares two reference routes structurally.
func refEqual(a, b ref.Route) bool {
	if len(a.Segs) != len(b.Segs) {
		return false
	}
	for i := range a.Segs {
		x, y := a.Segs[i], b.Segs[i]
		if x.Optional != y.Optional || len(x.Elems) != len(y.Elems) {
			return false
		}
		for j := range x.Elems {
			e, f := x.Elems[j], y.Elems[j]
			if e.Kind != f.Kind || e.Text != f.Text || len(e.Params) != len(f.Params) {
				return false
			}
			for k := range e.Params {
				if e.Params[k] != f.Params[k] {
					return false
				}
			}
		}
	}
	return true
}

// mkCatalogue parses every text with the real parser and the reference parser; texts the real
// parser rejects or whose ASTs differ are returned in bad (C06 owns that verdict).
func mkCatalogue(p *route.Parser, texts []string) (cat []catRoute, bad []string) {
	for _, t := range texts {
		rr, ok, _ := ref.Parse(t)
		ast, err := p.Parse(t)
		if !ok || err != nil || !refEqual(rr, astToRef(ast)) {
			bad = append(bad, t)
			continue
		}
		cat = append(cat, catRoute{Ref: rr, Text: rr.Text(), AST: ast})
	}
	return
}

func nopHandler(http.ResponseWriter, *http.Request, route.Params) {}

// safeAddRoute registers on the real tree, turning a runtime panic into a report.
func safeAddRoute(t route.Tree, a *route.Route) (leaf route.Leaf, err error, panicked interface{}) {
	defer func() {
		if p := recover(); p != nil {
			panicked = p
		}
	}()
	leaf, err = route.AddRoute(t, a, nopHandler)
	return
}

// safeMatch runs the real matcher, turning a panic into a report.
func safeMatch(t route.Tree, path string, h http.Header) (leaf route.Leaf, params route.Params, ok bool, panicked interface{}) {
	defer func() {
		if p := recover(); p != nil {
			panicked = p
		}
	}()
	leaf, params, ok = t.Match(path, h)
	return
}

// pathsOver returns every raw path "/"+s1+"/"+...+"/"+sn for 1..maxSegs segments over alphabet,
// plus the special forms.
func pathsOver(alpha []string, maxSegs int, specials []string) []string {
	var out []string
	var rec func(prefix string, depth int)
	rec = func(prefix string, depth int) {
		for _, a := range alpha {
			p := prefix + "/" + a
			out = append(out, p)
			if depth+1 < maxSegs {
				rec(p, depth+1)
			}
		}
	}
	rec("", 0)
	out = append(out, specials...)
	return out
}

func fmtParams(p map[string]string) string {
	keys := make([]string, 0, len(p))
	for k := range p {
		keys = append(keys, k)
	}
	sort.Strings(keys)
	var b strings.Builder
	for _, k := range keys {
		fmt.Fprintf(&b, "%s=%q ", k, p[k])
	}
	return strings.TrimSpace(b.String())
}
