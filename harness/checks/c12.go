package checks

import (
	"encoding/json"
	"fmt"
	"io"
	"net/http"
	"strings"
	"time"

	"github.com/flamego/flamego"
	"github.com/flamego/flamego/internal/route"
	"github.com/flamego/flamego/verifharness/core"
	"github.com/flamego/flamego/verifharness/ref"
)

// ---- C12: URL building substitutes exactly and inverts matching (engine E) ----

var c12Routes = []string{
	"/", "/a", "/{x}", "/a/{x}/b", "/{x}-{y}", "/a.{x}", "/{y: /[0-9]+/}", "/{y: /x+/, z: /y+/}", "/u/{a: /x+/, b: /y+/}/{c}",
	"/{m: **}", "/{m: **, capture: 2}/e", "/{**}", "/n/?{x}", "/n/?b", "/?{x}", "/{x}/?{y}", "/{x}{y}", "/a+b{x}", "/n/?{m: **}", "/{x}/{y}/{z}",
	"/{x}/?{y: /a+/, z: /b+/}", "/p{x}q{y}r", "/{g: /(a|b)+/}{x}",
	"/users/{user-id}/posts/{post.id}", "/{a~b}/{c@d: /x+/}", "/{k=v}-{l+m}", "/t/{(p)}/{**}",
	// route shapes that a path-cleaning builder would alter: trailing slash, dot segments
	"/d/{x}/", "/d/", "/./{x}", "/{x}/../{y}", "/d/./e/{x}/..", "/d/{x}/?",
	// an optional last segment after binds that carry annotations (expression, capture limit)
	"/t/{name}/{withOptional}", "/u/{y: /[0-9]+/}/?e", "/f/{m: **, capture: 3}/r/?d", "/{y: /a+/, z: /b+/}/?{o}", "/u/{y: /[0-9]+/}/?{o: /e+/}",
	// literal text with characters that template languages give a meaning to
	"/o/$m/{x}", "/p/{x}/q$u", "/i/${x}", "/j/$$/{x}/$", "/k/%s/{x}/%d", "/l/(x)/{x}", "/n/{x}~{y}/@{self}",
	// binds that carry the names the syntax uses for its annotations
	"/f/{capture: **}", "/g/{capture: **, capture: 2}/?raw", "/h/{capture}/{y}", "/i/{capture: /[0-9]+/}/r",
}

var c12Values = []string{"\x00absent", "v", "", "{x}", "{y}", "{self}", "a/b", "}", "{", "%2F", "x y", "v/y/v", "w?o", "/?"}

type c12Case struct {
	Route   string            `json:"route"`
	API     string            `json:"api"`
	Vals    map[string]string `json:"values,omitempty"`
	Pairs   []string          `json:"pairs,omitempty"`
	WithOpt string            `json:"withOptional,omitempty"`
	Path    string            `json:"request_path,omitempty"`
}

func c12ValsOf(binds []string, idx []int) map[string]string {
	vals := map[string]string{}
	for i, b := range binds {
		v := c12Values[idx[i]]
		if v == "\x00absent" {
			continue
		}
		if v == "{self}" {
			v = "{" + b + "}"
		}
		vals[b] = v
	}
	return vals
}

func c12Leaf(cr catRoute) (route.Leaf, bool) {
	tree := route.NewTree()
	leaf, err, pan := safeAddRoute(tree, cr.AST)
	return leaf, err == nil && pan == nil
}

func c12Forward(cr catRoute, api string, vals map[string]string, extra []string, withOpt string) (bad string) {
	for _, b := range cr.Ref.Binds() {
		if b == "withOptional" && withOpt != "" {
			return "" // a bind that carries the reserved name: only builds without the reserved pair are defined
		}
	}
	want := cr.Ref.BuildURL(vals, withOpt == "true")
	var got string
	var pan interface{}
	pairs := []string{}
	for k, v := range vals {
		pairs = append(pairs, k, v)
	}
	if withOpt != "" {
		pairs = append(pairs, "withOptional", withOpt)
	}
	pairs = append(pairs, extra...) // a trailing odd element must be ignored
	func() {
		defer func() { pan = recover() }()
		switch api {
		case "Leaf.URLPath":
			leaf, ok := c12Leaf(cr)
			if !ok {
				got = "\x00unregistrable"
				return
			}
			all := map[string]string{}
			for k, v := range vals {
				all[k] = v
			}
			for i := 0; i+1 < len(extra); i += 2 {
				all[extra[i]] = extra[i+1]
			}
			got = leaf.URLPath(all, withOpt == "true")
		case "Router.URLPath":
			f := flamego.NewWithLogger(io.Discard)
			f.Get(cr.Text, func() {}).Name("r")
			got = f.URLPath("r", pairs...)
		case "Context.URLPath":
			f := flamego.NewWithLogger(io.Discard)
			f.Get(cr.Text, func() {}).Name("r")
			f.Get("/zzprobe", func(c flamego.Context) { got = c.URLPath("r", pairs...) })
			f.ServeHTTP(&c01Spy{hdr: http.Header{}}, newReq("GET", "/zzprobe"))
		}
	}()
	if pan != nil {
		return fmt.Sprintf("%s panicked: %v", api, pan)
	}
	if got == "\x00unregistrable" {
		return ""
	}
	if got != want {
		return fmt.Sprintf("%s built %q, simultaneous substitution gives %q", api, got, want)
	}
	return ""
}

// c12Inverse serves path on a Flame with the named route and rebuilds the URL inside the handler
// from the parameters the handler received.
func c12Inverse(m *ref.Matcher, cr catRoute, raw string) (bad string, dispatched bool) {
	f := flamego.NewWithLogger(io.Discard)
	var params map[string]string
	var builtLong, builtShort string
	ran := false
	var pan interface{}
	func() {
		defer func() { pan = recover() }()
		f.Get(cr.Text, func(c flamego.Context) {
			ran = true
			params = map[string]string{}
			var pairs []string
			for k, v := range c.Params() {
				params[k] = v
				if k != "route" {
					pairs = append(pairs, k, v)
				}
			}
			builtShort = c.URLPath("r", pairs...)
			builtLong = c.URLPath("r", append(pairs, "withOptional", "true")...)
			c.ResponseWriter().WriteHeader(204)
		}).Name("r")
		f.ServeHTTP(&c01Spy{hdr: http.Header{}}, newReq("GET", raw))
	}()
	if pan != nil {
		return fmt.Sprintf("panicked: %v", pan), false
	}
	if !ran {
		return "", false
	}
	segs := ref.SplitPath(raw)
	norm := "/" + strings.Join(segs, "/")
	forms := cr.Ref.Forms()
	for fi, form := range forms {
		usedLong := fi == 0
		var binds []string
		for _, s := range form {
			binds = append(binds, s.Binds()...)
		}
		verdict := ""
		ok := false
		m.Alignments(form, segs, func(a map[string]string) bool {
			for _, b := range binds {
				if v, has := params[b]; !has || v != decode1(a[b]) {
					return true
				}
			}
			// this alignment explains the request: the model must reproduce the raw path from raw captures
			if back := cr.Ref.BuildURL(a, usedLong && cr.Ref.HasOptional() || !cr.Ref.HasOptional()); back != norm && !(norm == "/" && back == "") {
				verdict = fmt.Sprintf("model self-check failed: raw captures rebuild %q, request path %q", back, norm)
				return false
			}
			dec := map[string]string{}
			for k, v := range a {
				dec[k] = decode1(v)
			}
			want := cr.Ref.BuildURL(dec, usedLong)
			got := builtShort
			if usedLong {
				got = builtLong
			}
			if got == want {
				ok = true
				verdict = ""
				return false
			}
			verdict = fmt.Sprintf("request %q dispatched with {%s}; rebuilding with those values (optional segment: %v) gives %q, the request path with once-decoded values is %q", raw, fmtParams(params), usedLong && cr.Ref.HasOptional(), got, want)
			return true
		})
		if ok {
			return "", true
		}
		if verdict != "" {
			return verdict, true
		}
	}
	return "", true // parameters not explained by any alignment: C02's finding
}

// c12Sequence performs every build of one route on ONE router instance, forwards and backwards, and
// compares each with the model. Returns the first mismatch.
func c12Sequence(cr catRoute, l *core.Local) (first string) {
	binds := cr.Ref.Binds()
	if len(binds) == 0 || len(binds) > 3 {
		return ""
	}
	f := flamego.NewWithLogger(io.Discard)
	if pan := func() (pv interface{}) {
		defer func() { pv = recover() }()
		f.Get(cr.Text, func() {}).Name("r")
		return nil
	}(); pan != nil {
		return ""
	}
	l.States++
	var all [][]int
	n := 1
	for range binds {
		n *= len(c12Values)
	}
	for c := 0; c < n; c++ {
		idx := make([]int, len(binds))
		x := c
		for i := range idx {
			idx[i] = x % len(c12Values)
			x /= len(c12Values)
		}
		all = append(all, idx)
	}
	for pass := 0; pass < 2; pass++ {
		for k := range all {
			idx := all[k]
			if pass == 1 {
				idx = all[len(all)-1-k]
			}
			vals := c12ValsOf(binds, idx)
			for _, wo := range []string{"", "true"} {
				if wo != "" && strings.Contains(cr.Text, "{withOptional}") {
					continue // the bind carries the reserved name: only builds without the reserved pair are defined
				}
				// pairs in bind order (deterministic), so that equal joined texts can collide
				var pairs []string
				for _, b := range binds {
					if v, ok := vals[b]; ok {
						pairs = append(pairs, b, v)
					}
				}
				if wo != "" && (k+pass)%3 == 0 {
					pairs = append([]string{"withOptional", wo}, pairs...) // the reserved pair in front of the values
				} else if wo != "" {
					pairs = append(pairs, "withOptional", wo)
				}
				given := append([]string{}, pairs...)
				l.Evals++
				l.Transitions++
				l.Traces++
				if (k+pass)%2 == 0 {
					// a build that is refused (no route of that name) although it came with a value for every
					// bind: what it was given is no business of the builds that follow
					leak := []string{"withOptional", "true"}
					for _, b := range binds {
						leak = append(leak, b, "LEAK")
					}
					func() {
						defer func() { _ = recover() }()
						_ = f.URLPath("no-route-of-this-name", leak...)
					}()
					l.Transitions++
				}
				want := cr.Ref.BuildURL(vals, wo == "true")
				var got string
				pan := func() (pv interface{}) {
					defer func() { pv = recover() }()
					got = f.URLPath("r", pairs...)
					return nil
				}()
				if pan == nil && got == want && strings.Join(pairs, "\x00") != strings.Join(given, "\x00") {
					pan = fmt.Sprintf("the build rewrote the caller's slice of pairs: given %q, afterwards %q", given, pairs)
				}
				if pan != nil || got != want {
					bad := fmt.Sprintf("after earlier builds on the same router, URLPath(%q) = %q (panic %v), one-pass substitution gives %q [route %q]", given, got, pan, want, cr.Text)
					if first == "" {
						first = bad
					}
					l.Class("mismatch")
					l.Violate("sequence-of-builds/Router.URLPath", bad, c12Case{Route: cr.Text, API: "sequence", Vals: vals, WithOpt: wo})
				} else {
					l.Class("forward:sequence-on-one-router")
				}
			}
		}
	}
	return first
}

// c12Groups: named routes registered as siblings inside groups whose prefix has 1..6 segments (one Group
// call or one per segment): after everything is registered every named route builds its own URL.
func c12Groups(r *core.Run, p *route.Parser) {
	l := core.NewLocal()
	r.Bounds["grouped_named_routes"] = c12GroupsOn(l, p)
	r.Merge(l)
}

func c12GroupsOn(l *core.Local, p *route.Parser) (bounds string) {
	siblings := [][]string{{"/{x}", "/t"}, {"/t", "/{x}"}, {"/{x}", "/{y}/e", "/t/{z}"}, {"/a-{x}", "/b", "/?{o}"}, {"/{x}/?{y}", "/n"}}
	type job struct {
		depth  int
		nested bool
		sib    []string
	}
	var jobs []job
	for d := 1; d <= 6; d++ {
		for _, nested := range []bool{false, true} {
			for _, sb := range siblings {
				jobs = append(jobs, job{d, nested, sb})
			}
		}
	}
	bounds = fmt.Sprintf("%d programs: group prefixes of 1..6 segments (flat or nested) x %d sibling sets", len(jobs), len(siblings))
	for _, j := range jobs {
		var segs []string
		for i := 0; i < j.depth; i++ {
			segs = append(segs, fmt.Sprintf("/g%d", i))
		}
		prefix := strings.Join(segs, "")
		f := flamego.NewWithLogger(io.Discard)
		body := func() {
			for i, rt := range j.sib {
				if i%2 == 1 {
					// named through a Combo: the name goes to the route the Combo added last
					f.Combo(rt).Post(func() {}).Get(func() {}).Name(fmt.Sprintf("r%d", i))
					continue
				}
				f.Get(rt, func() {}).Name(fmt.Sprintf("r%d", i))
			}
		}
		pan := func() (pv interface{}) {
			defer func() { pv = recover() }()
			if !j.nested {
				f.Group(prefix, body)
			} else {
				var nest func(i int)
				nest = func(i int) {
					if i == len(segs) {
						body()
						return
					}
					f.Group(segs[i], func() { nest(i + 1) })
				}
				nest(0)
			}
			return nil
		}()
		if pan != nil {
			l.Extra["grouped_programs_refused"]++
			continue
		}
		l.States++
		for i, rt := range j.sib {
			cat, bad := mkCatalogue(p, []string{prefix + rt})
			if len(bad) > 0 {
				continue
			}
			binds := cat[0].Ref.Binds()
			for _, val := range []string{"v", "", "a/b"} {
				for _, wo := range []string{"", "true"} {
					vals := map[string]string{}
					var pairs []string
					for _, b := range binds {
						vals[b] = val + b
						pairs = append(pairs, b, val+b)
					}
					if wo != "" {
						pairs = append(pairs, "withOptional", wo)
					}
					want := cat[0].Ref.BuildURL(vals, wo == "true")
					var got string
					pan := func() (pv interface{}) {
						defer func() { pv = recover() }()
						got = f.URLPath(fmt.Sprintf("r%d", i), pairs...)
						return nil
					}()
					l.Evals++
					l.Transitions++
					l.Traces++
					l.NonTrivial++
					if pan != nil || got != want {
						l.Class("mismatch")
						l.Violate("grouped-siblings/Router.URLPath", fmt.Sprintf("route %q registered as sibling #%d of %q inside a group prefix of %d segments (nested groups: %v): URLPath(%q) = %q (panic %v), one-pass substitution over %q gives %q", rt, i, j.sib, j.depth, j.nested, pairs, got, pan, prefix+rt, want),
							c12Case{Route: prefix + rt, API: "grouped", Vals: vals, WithOpt: wo})
					} else {
						l.Class("forward:grouped-sibling")
					}
				}
			}
		}
	}
	return bounds
}

// c12Names: a name belongs to the route that was given it first. Naming a second route the same panics (a
// registration panic the application may recover from) and changes nothing: the name still builds the first route.
// c12TwoNames: a route given two names.
func c12TwoNames(l *core.Local) {
	// a route given two names: both build its URL from then on, and neither can be given to another route
	{
		f := flamego.NewWithLogger(io.Discard)
		r1 := f.Get("/two/{x}", func() {})
		r1.Name("first")
		r1.Name("second")
		other := f.Get("/other/{x}", func() {})
		var a, b string
		pan := func() (pv interface{}) {
			defer func() { pv = recover() }()
			a, b = f.URLPath("first", "x", "v"), f.URLPath("second", "x", "v")
			return nil
		}()
		refused := func() (pv interface{}) {
			defer func() { pv = recover() }()
			other.Name("first")
			return nil
		}()
		l.Evals++
		l.Transitions += 4
		l.Traces++
		l.NonTrivial++
		switch {
		case pan != nil || a != "/two/v" || b != "/two/v":
			l.Class("mismatch")
			l.Violate("names/two-names-of-one-route", fmt.Sprintf("a route named first and then second builds %q under the first and %q under the second name (panic %v), expected /two/v twice", a, b, pan), c12Case{Route: "/two/{x}", API: "names"})
		case refused == nil:
			l.Class("mismatch")
			l.Violate("names/duplicate-accepted", "the first of two names of a route could be given to another route", c12Case{Route: "/two/{x}", API: "names"})
		default:
			l.Class("names:two-names-of-one-route")
		}
	}
}

func c12Names(r *core.Run) {
	l := core.NewLocal()
	routes := []string{"/u/{x}", "/t/{x}/m", "/s", "/w/{x}/?e"}
	for i, a := range routes {
		for j, b := range routes {
			if i == j {
				continue
			}
			l.Evals++
			l.Transitions += 3
			l.Traces++
			l.NonTrivial++
			l.States++
			f := flamego.NewWithLogger(io.Discard)
			f.Get(a, func() {}).Name("n")
			before := f.URLPath("n", "x", "v")
			second := f.Get(b, func() {})
			refused := func() (pv interface{}) {
				defer func() { pv = recover() }()
				second.Name("n")
				return nil
			}()
			var after, own string
			pan := func() (pv interface{}) {
				defer func() { pv = recover() }()
				after = f.URLPath("n", "x", "v")
				second.Name("m")
				own = f.URLPath("m", "x", "v")
				return nil
			}()
			switch {
			case refused == nil:
				l.Class("mismatch")
				l.Violate("names/duplicate-accepted", fmt.Sprintf("route %q could be given the name of route %q", b, a), c12Case{Route: a, API: "names", Path: b})
			case pan != nil || after != before:
				l.Class("mismatch")
				l.Violate("names/refused-naming-changed-the-name", fmt.Sprintf("name n was given to %q (builds %q); after the refused attempt to give it to %q it builds %q (panic %v)", a, before, b, after, pan), c12Case{Route: a, API: "names", Path: b})
			case !strings.HasPrefix(own, strings.SplitN(b, "{", 2)[0]):
				l.Class("mismatch")
				l.Violate("names/second-route", fmt.Sprintf("route %q named m builds %q", b, own), c12Case{Route: a, API: "names", Path: b})
			default:
				l.Class("names:first-naming-stands")
			}
		}
	}
	c12TwoNames(l)
	r.Merge(l)
}

func c12Run(r *core.Run) {
	p, err := route.NewParser()
	if err != nil {
		panic(err)
	}
	r.SetBudget(70 * time.Second)
	if r.Thorough() {
		r.SetBudget(10 * time.Minute)
	}
	r.Rule = "engine E: every named route of the catalogue x every assignment of {absent, v, '', {other}, {self}, a/b, }, {, %2F, 'x y'} to its binds x unknown names x withOptional {absent,true,false} through Leaf.URLPath, Router.URLPath and Context.URLPath, compared with one-pass substitution over the route skeleton; named sibling routes inside group prefixes of 1..6 segments; inverse: every dispatched (route, path) pair of the C02 catalogue rebuilt inside the handler from the received parameters; non-trivial = assignment with a value that contains a brace or another bind's name, or an inverse case with >=2 binds or an escape"
	r.Assumptions = []string{"bind and value NAMES containing braces are outside the statement's quantifier", "the short form of a one-segment optional route builds '' (the root path without its slash); compared modulo leading slash in the inverse"}
	c12Groups(r, p)
	c12Names(r)
	cat, bad := mkCatalogue(p, c12Routes)
	r.Notes["routes_unparseable(C06)"] = len(bad)
	r.Bounds["routes"] = len(cat)
	r.Bounds["values_per_bind"] = c12Values
	apis := []string{"Leaf.URLPath", "Router.URLPath", "Context.URLPath"}
	extras := [][]string{nil, {"zz", "q"}, {"n", "q"}, {"u", "q", "e", "{x}"}, {"odd"}, {"", "q"}, {"{}", "q", " ", "w"}} // unknown names incl. the empty one
	type job struct {
		cr  catRoute
		idx []int
	}
	var jobs []job
	for _, cr := range cat {
		binds := cr.Ref.Binds()
		n := 1
		for range binds {
			n *= len(c12Values)
		}
		for c := 0; c < n; c++ {
			idx := make([]int, len(binds))
			x := c
			for i := range idx {
				idx[i] = x % len(c12Values)
				x /= len(c12Values)
			}
			jobs = append(jobs, job{cr, idx})
		}
	}
	r.Parallel(func(w, nw int, l *core.Local) {
		for ji := w; ji < len(jobs); ji += nw {
			if (ji/nw)%4 == 0 && r.Expired() {
				return
			}
			j := jobs[ji]
			binds := j.cr.Ref.Binds()
			vals := c12ValsOf(binds, j.idx)
			nt := false
			for _, v := range vals {
				if strings.ContainsAny(v, "{}") {
					nt = true
				}
			}
			l.States++
			for ai, api := range apis {
				if !r.Thorough() && ai > 0 && ji%5 != 0 {
					continue // quick: the Flame-backed APIs on every 5th assignment (a Flame per call)
				}
				for _, extra := range extras {
					if api == "Leaf.URLPath" && len(extra) == 1 {
						continue
					}
					for _, wo := range []string{"", "true", "false"} {
						l.Evals++
						l.Transitions++
						l.Traces++
						if nt {
							l.NonTrivial++
						}
						bad := c12Forward(j.cr, api, vals, extra, wo)
						if bad != "" {
							shape := "single-bind-elements"
							if strings.Contains(j.cr.Text, ", ") && !strings.Contains(j.cr.Text, "**") {
								shape = "parameter-list"
							}
							l.Class("mismatch")
							l.Violate("forward/"+shape+"/"+api, bad+fmt.Sprintf(" [route %q values %v extra %v withOptional %q]", j.cr.Text, vals, extra, wo),
								c12Case{Route: j.cr.Text, API: api, Vals: vals, Pairs: extra, WithOpt: wo})
						} else {
							c := "forward:" + api
							if len(vals) < len(binds) {
								c += ":some-binds-without-value"
							}
							l.Class(c)
							if nt && ji%997 == 0 {
								l.Sample(c12Case{Route: j.cr.Text, API: api, Vals: vals, Pairs: extra, WithOpt: wo})
							}
						}
					}
				}
			}
		}
	})

	// every build of a route on ONE router instance, one after the other (in both directions): a build
	// must not depend on the builds made before it
	r.Parallel(func(w, nw int, l *core.Local) {
		for ci := w; ci < len(cat); ci += nw {
			c12Sequence(cat[ci], l)
		}
	})

	// panics that the statement demands
	{
		l := core.NewLocal()
		expectPanic := func(name string, fn func()) {
			l.Evals++
			l.Transitions++
			l.Traces++
			var pan interface{}
			func() {
				defer func() { pan = recover() }()
				fn()
			}()
			if pan == nil {
				l.Violate("missing-panic/"+name, name+" did not panic", c12Case{API: name})
			} else {
				l.Class("panics-as-documented")
			}
		}
		expectPanic("Combo.Name(before any method)", func() { f := flamego.NewWithLogger(io.Discard); f.Combo("/a").Name("n") })
		expectPanic("Name(empty)", func() { f := flamego.NewWithLogger(io.Discard); f.Get("/a", func() {}).Name("") })
		expectPanic("Name(duplicate)", func() {
			f := flamego.NewWithLogger(io.Discard)
			f.Get("/a", func() {}).Name("n")
			f.Get("/b", func() {}).Name("n")
		})
		expectPanic("URLPath(unknown)", func() { f := flamego.NewWithLogger(io.Discard); f.Get("/a", func() {}).Name("n"); f.URLPath("other") })
		expectPanic("URLPath(empty)", func() { f := flamego.NewWithLogger(io.Discard); f.Get("/a", func() {}).Name("n"); f.URLPath("") })
		r.Merge(l)
	}

	// inverse over the C02 catalogue
	segs := c02Segments(r.Thorough())
	type ijob struct {
		cr    catRoute
		texts []string
		emb   c02Embedding
	}
	var ijobs []ijob
	for si, sg := range segs {
		if !r.Thorough() && si%6 != 0 {
			continue
		}
		for _, emb := range c02Embeddings {
			c, bad := mkCatalogue(p, []string{emb.mk(sg.text)})
			if len(bad) > 0 {
				continue
			}
			ijobs = append(ijobs, ijob{c[0], sg.cands, emb})
		}
	}
	for _, rt := range c12Routes {
		c, _ := mkCatalogue(p, []string{rt})
		if len(c) == 1 {
			ijobs = append(ijobs, ijob{c[0], []string{"a", "v", "n", "n/v", "n/b", "xxyy", "u/xxyy/c", "a/b/c", "a%2Fb", "v/aab", "paqbr", "12", "a-b", "a.b", "a+bq", "abab", "v/e", "v/w/e", ""},
				c02Embedding{path: func(t string) string { return "/" + t }}})
		}
	}
	r.Bounds["inverse_routes"] = len(ijobs)
	r.Parallel(func(w, nw int, l *core.Local) {
		m := ref.NewMatcher()
		for ji := w; ji < len(ijobs); ji += nw {
			if r.Expired() {
				return
			}
			j := ijobs[ji]
			l.States++
			paths := map[string]bool{}
			for _, t := range j.texts {
				paths[j.emb.path(t)] = true
			}
			if j.emb.opt {
				paths["/n"] = true
			}
			for raw := range paths {
				l.Evals++
				l.Transitions++
				l.Traces++
				bad, disp := c12Inverse(m, j.cr, raw)
				if bad != "" {
					shape := "single-bind-elements"
					if strings.Contains(j.cr.Text, ", ") && !strings.Contains(j.cr.Text, "**") {
						shape = "parameter-list"
					}
					l.Class("mismatch")
					l.Violate("inverse/"+shape, bad+fmt.Sprintf(" [route %q]", j.cr.Text), c12Case{Route: j.cr.Text, API: "inverse", Path: raw})
				} else if disp {
					l.Class("inverse:round-trip")
					if len(j.cr.Ref.Binds()) >= 2 || strings.Contains(raw, "%") {
						l.NonTrivial++
					}
				} else {
					l.Class("inverse:not-dispatched")
				}
			}
		}
	})
}

func c12Replay(raw json.RawMessage) (bool, string) {
	var c c12Case
	if err := json.Unmarshal(raw, &c); err != nil {
		return false, err.Error()
	}
	if strings.HasPrefix(c.API, "Name(") || strings.HasPrefix(c.API, "URLPath(") {
		return false, "panic expectation: re-run the check"
	}
	p, _ := route.NewParser()
	cat, bad := mkCatalogue(p, []string{c.Route})
	if len(bad) > 0 {
		return false, "route does not parse"
	}
	if c.API == "names" {
		sub := core.NewRun("C12", "quick")
		c12Names(sub)
		if sub.HasViolations() {
			return true, "a refused duplicate naming changed what the name builds (the naming phase was re-run)"
		}
		return false, ""
	}
	if c.API == "grouped" {
		l := core.NewLocal()
		c12GroupsOn(l, p)
		if l.Classes["mismatch"] > 0 {
			return true, "a named route registered as a sibling inside a group builds a wrong URL (the whole grouped phase was re-run)"
		}
		return false, ""
	}
	if c.API == "sequence" {
		l := core.NewLocal()
		bad := c12Sequence(cat[0], l)
		return bad != "", bad
	}
	if c.API == "inverse" {
		b, _ := c12Inverse(ref.NewMatcher(), cat[0], c.Path)
		return b != "", b
	}
	b := c12Forward(cat[0], c.API, c.Vals, c.Pairs, c.WithOpt)
	return b != "", b
}

func init() {
	core.Register(&core.Check{ID: "C12", Run: c12Run, Replay: c12Replay})
}
