package checks

import (
	"encoding/json"
	"fmt"
	"io"
	"net/http"
	"net/url"
	"strings"
	"time"

	"github.com/flamego/flamego"
	"github.com/flamego/flamego/internal/route"
	"github.com/flamego/flamego/verifharness/core"
	"github.com/flamego/flamego/verifharness/ref"
)

// ---- C01: dispatch iff admitted, winner by the documented priority (engine E) ----

// c01Shapes lists the segment shapes for position i (bind names carry the position so that a
// route never reuses a name).
func c01Shapes(i int) []string {
	return []string{
		"a", "b", "",
		fmt.Sprintf("{r%d: /a|c/}", i), fmt.Sprintf("{s%d: /[ab]+/}", i),
		fmt.Sprintf("a-{t%d}", i),
		fmt.Sprintf("{g%d: /(a|c)/}", i), fmt.Sprintf("a+{u%d}", i), fmt.Sprintf("{e%d: /[ab]*/}", i),
		fmt.Sprintf("{p%d}", i), fmt.Sprintf("{q%d}", i),
		fmt.Sprintf("{m%d: **}", i), fmt.Sprintf("{n%d: **, capture: 2}", i), "{**}",
	}
}

// c01CatalogueTexts: every route of 1..maxSegs segments over the shapes, final segment also optional.
func c01CatalogueTexts(maxSegs int) []string {
	var out []string
	var rec func(prefix string, pos int)
	rec = func(prefix string, pos int) {
		for _, sh := range c01Shapes(pos) {
			out = append(out, prefix+"/"+sh, prefix+"/?"+sh)
			if pos < maxSegs {
				rec(prefix+"/"+sh, pos+1)
			}
		}
	}
	rec("", 1)
	return out
}

// c01Reduced is the hand-shaped catalogue for triples/quadruples: routes that force shared
// prefixes, equal-rank siblings, optional short forms colliding with siblings, middle match-alls
// with competing continuations.
func c01ReducedTexts() []string {
	firsts := []string{"a", "{p1}", "{q1}", "{r1: /a|c/}", "{m1: **}", "{n1: **, capture: 2}"}
	seconds := []string{"b", "{p2}", "{m2: **}", "?b", "?{p2}", "", "{s2: /[ab]+/}"}
	var out []string
	out = append(out, "/a", "/{p1}", "/{q1}", "/{m1: **}", "/{n1: **, capture: 2}", "/{s1: /[ab]+/}", "/", "/?a", "/a-{t1}")
	for _, f := range firsts {
		for _, s := range seconds {
			out = append(out, "/"+f+"/"+s)
		}
	}
	out = append(out, "/a/b/c", "/a/{p2}/c", "/{m1: **}/b/c", "/a/{m2: **}/c", "/{p1}/{m2: **}/c", "/a/b/?c", "/a/{n2: **, capture: 2}/{p3}",
		"/{p1}/b/{m3: **}", "/{q1}/{q2}/c", "/a/b/{m3: **}",
		// an optional last segment two levels below a match-all in the middle
		"/{m1: **}/b/?c", "/a/{m2: **}/b/?{o4}")
	return out
}

type c01Case struct {
	Routes []string `json:"routes_in_registration_order"`
	Method []string `json:"methods,omitempty"` // flame level: method of each route
	// Spelled: the request line spells the letters of the path as percent-escapes (same path for net/http)
	Spelled bool   `json:"request_line_percent_escaped,omitempty"`
	Req     string `json:"request_method,omitempty"`
	Path    string `json:"path"`
	// History: requests matched on the same tree before Path (recorded only when a fresh tree alone does
	// not show the mismatch)
	History []string `json:"earlier_requests_on_the_same_tree,omitempty"`
	// Between: these paths were matched on the tree after every registration but the last
	Between []string `json:"requests_served_between_the_registrations,omitempty"`
	// Served: flame level, the requests served on the same instance before this one (same rule)
	Served []c01Req `json:"earlier_requests_on_the_same_instance,omitempty"`
}

type c01Req struct {
	Method  string `json:"method"`
	Path    string `json:"path"`
	Spelled bool   `json:"percent_escaped,omitempty"`
}

func c01ServeReq(f *flamego.Flame, q c01Req) (code int, pan interface{}) {
	req := newReq(q.Method, q.Path)
	if q.Spelled {
		var ok bool
		if req, ok = newReqSpelled(q.Method, q.Path); !ok {
			return 0, nil
		}
	}
	spy := &c01Spy{hdr: http.Header{}}
	defer func() { pan = recover() }()
	f.ServeHTTP(spy, req)
	return spy.code, nil
}

type c01Env struct {
	m *ref.Matcher
}

// c01Build registers the routes in order on a fresh real tree and a fresh reference trie; a route
// both sides reject is simply not part of the registered set. usable=false when implementation and reference
// disagree on a registration verdict (that is C08's finding, not C01's) or a shape is unclassified.
func c01Build(rs []catRoute) (tree route.Tree, trie *ref.Trie, registered []int, usable bool) {
	return c01BuildServing(rs, nil)
}

// c01BuildServing: as c01Build, with every path of between matched on the tree after each registration
// but the last (an application that keeps registering routes after it has begun to serve).
func c01BuildServing(rs []catRoute, between []string) (tree route.Tree, trie *ref.Trie, registered []int, usable bool) {
	tree = route.NewTree()
	trie = ref.NewTrie()
	for i, r := range rs {
		if i > 0 {
			for _, p := range between {
				safeMatch(tree, p, nil)
			}
		}
		reason, other := trie.Validate(r.Ref)
		_, err, pan := safeAddRoute(tree, r.AST)
		if other || pan != nil || (reason == "") != (err == nil) {
			return tree, trie, registered, false
		}
		if err != nil {
			// rejected: not part of the registered set; the history goes on (an application may recover from
			// the registration panic) and the rejected route must not take part in dispatch
			continue
		}
		trie.Add(r.Ref)
		registered = append(registered, i)
	}
	return tree, trie, registered, true
}

// c01Eval compares one path. Returns a mismatch description ("" when fine), the outcome class and
// whether the case is non-trivial.
func c01Eval(env *c01Env, tree route.Tree, trie *ref.Trie, raw string) (bad, key, class string, nontrivial bool) {
	segs := ref.SplitPath(raw)
	leaf, _, found, pan := safeMatch(tree, raw, nil)
	if pan != nil {
		return fmt.Sprintf("Tree.Match panicked: %v", pan), "panic", "panic", true
	}
	admitting := 0
	for _, r := range trie.Routes {
		l, s := env.m.RouteAdmits(r, segs)
		if l {
			admitting++
		}
		if s {
			admitting++
		}
	}
	want := trie.Match(env.m, segs, nil)
	nontrivial = admitting >= 2 || want.Backtracked
	if (admitting > 0) != found {
		if found {
			return fmt.Sprintf("dispatched to %q although no registered route admits the path", leaf.Route()), "dispatch-without-admission", "mismatch", nontrivial
		}
		return fmt.Sprintf("not found although %d registered route form(s) admit the path", admitting), "notfound-while-admitted", "mismatch", nontrivial
	}
	if want.Found != found {
		return fmt.Sprintf("priority procedure found=%v, implementation found=%v", want.Found, found), "procedure-disagrees-on-found", "mismatch", nontrivial
	}
	if !found {
		return "", "", "notfound", nontrivial
	}
	wr := trie.Routes[want.Route]
	if leaf.Route() != wr.Text() {
		k, _ := wr.Segs[len(wr.Segs)-1].Kind()
		return fmt.Sprintf("dispatched to %q, documented priority picks %q", leaf.Route(), wr.Text()), "wrong-winner/" + k.String(), "mismatch", nontrivial
	}
	k, _ := wr.Segs[len(wr.Segs)-1].Kind()
	class = "found:" + k.String()
	if want.Short {
		class += ":short-form"
	}
	if want.Backtracked {
		class += ":after-backtrack"
	}
	return "", "", class, nontrivial
}

func c01Texts(rs []catRoute) []string {
	out := make([]string, len(rs))
	for i, r := range rs {
		out[i] = r.Text
	}
	return out
}

// c01Configs runs every ordered k-tuple of distinct catalogue routes against every path.
func c01Configs(r *core.Run, cat []catRoute, k int, paths []string, label string) {
	t0 := time.Now()
	defer func() { r.Notes["phase_wall_s/"+label] = time.Since(t0).Seconds() }()
	n := len(cat)
	total := 1
	for i := 0; i < k; i++ {
		total *= n
	}
	r.Parallel(func(w, nw int, l *core.Local) {
		env := &c01Env{m: ref.NewMatcher()}
		idx := make([]int, k)
		rs := make([]catRoute, k)
		for c := w; c < total; c += nw {
			if (c/nw)%8 == 0 && r.Expired() {
				return
			}
			x := c
			distinct := true
			for i := k - 1; i >= 0; i-- {
				idx[i] = x % n
				x /= n
			}
			for i := 0; i < k && distinct; i++ {
				for j := 0; j < i; j++ {
					if idx[i] == idx[j] {
						distinct = false
					}
				}
			}
			if !distinct {
				continue
			}
			for i := range idx {
				rs[i] = cat[idx[i]]
			}
			tree, trie, reg, usable := c01Build(rs)
			if !usable {
				l.Extra["configs_skipped_registration_verdict_differs(C08)"]++
				continue
			}
			if len(reg) == 0 {
				continue
			}
			if len(reg) < k {
				// some registration of the tuple was rejected: the registered set is the rest, and the rejected
				// attempt must have left nothing behind that takes part in dispatch
				l.Extra["configs_with_a_rejected_registration"]++
			}
			l.States++
			for pi, p := range paths {
				l.Evals++
				l.Transitions++
				l.Traces++
				bad, key, class, nt := c01Eval(env, tree, trie, p)
				if nt {
					l.NonTrivial++
				}
				l.Class(class)
				if bad != "" {
					cs := c01Case{Routes: c01Texts(rs), Path: p}
					if t2, trie2, _, ok2 := c01Build(rs); ok2 {
						if b2, _, _, _ := c01Eval(env, t2, trie2, p); b2 == "" {
							cs.History = append([]string{}, paths[:pi]...)
							key += "/after-earlier-requests"
						}
					}
					l.Violate("tree/"+key, bad+fmt.Sprintf(" [routes %q, path %q, %d earlier requests on the tree]", c01Texts(rs), p, len(cs.History)), cs)
				} else if nt && (c+pi)%99991 == 0 {
					l.Sample(map[string]interface{}{"level": label, "routes": c01Texts(rs), "path": p, "outcome": class})
				}
			}
			if k >= 2 {
				// the same registrations with the whole path set served between them: the final tree must give
				// the answers of the tree built in one go (which were just compared with the model)
				if t2, _, reg2, ok2 := c01BuildServing(rs, paths); ok2 && len(reg2) == len(reg) {
					l.Extra["trees_built_with_requests_between_registrations"]++
					for _, p := range paths {
						l1, _, f1, _ := safeMatch(tree, p, nil)
						l2, _, f2, pan2 := safeMatch(t2, p, nil)
						l.Evals++
						l.Transitions++
						l.Traces++
						if pan2 != nil || f1 != f2 || (f1 && l1.Route() != l2.Route()) {
							got := "not found"
							if f2 {
								got = l2.Route()
							}
							want := "not found"
							if f1 {
								want = l1.Route()
							}
							l.Class("mismatch")
							l.Violate("tree/registration-after-serving", fmt.Sprintf("with requests served between the registrations the path %q is answered %q (panic %v), the same routes registered in one go answer %q [routes %q]", p, got, pan2, want, c01Texts(rs)),
								c01Case{Routes: c01Texts(rs), Path: p, Between: paths})
							break
						}
					}
				}
			}
		}
	})
}

// ---- flame level: the method dimension ----

type c01Spy struct {
	hdr  http.Header
	code int
	body strings.Builder
	// strict: the writer refuses status codes outside 100..999 the way net/http's does, with a panic
	strict bool
}

func (s *c01Spy) Header() http.Header { return s.hdr }
func (s *c01Spy) WriteHeader(c int) {
	if s.strict && (c < 100 || c > 999) {
		panic(fmt.Sprintf("invalid WriteHeader code %v", c))
	}
	s.code = c
}
func (s *c01Spy) Write(b []byte) (int, error) { s.body.Write(b); return len(b), nil }

func newReq(method, path string) *http.Request {
	return &http.Request{
		Method:     method,
		URL:        &url.URL{Path: path},
		Proto:      "HTTP/1.1",
		ProtoMajor: 1,
		ProtoMinor: 1,
		Header:     http.Header{},
		Host:       "example.com",
		RequestURI: path,
		RemoteAddr: "192.0.2.1:1234",
		Body:       http.NoBody,
	}
}

// newReqSpelled: the request a server builds from a request line that spells every letter and digit of
// path as a percent-escape (url.ParseRequestURI, as net/http does): the same path, another spelling.
// ok=false when the path has no such request line.
func newReqSpelled(method, path string) (*http.Request, bool) {
	if !strings.HasPrefix(path, "/") {
		return nil, false
	}
	var b strings.Builder
	for i := 0; i < len(path); i++ {
		c := path[i]
		if c >= 'a' && c <= 'z' || c >= 'A' && c <= 'Z' || c >= '0' && c <= '9' {
			fmt.Fprintf(&b, "%%%02X", c)
		} else {
			b.WriteByte(c)
		}
	}
	u, err := url.ParseRequestURI(b.String())
	if err != nil || u.Path != path || u.RawPath == "" {
		return nil, false
	}
	req := newReq(method, path)
	req.URL = u
	req.RequestURI = b.String()
	return req, true
}

// c01FlameEval builds a Flame with the given (method, route) registrations and serves one request.
func c01FlameBuild(rs []catRoute, methods []string) (f *flamego.Flame, hit *int, ok bool) {
	f = flamego.NewWithLogger(io.Discard)
	h := -1
	hit = &h
	for i := range rs {
		i := i
		pan := func() (p interface{}) {
			defer func() { p = recover() }()
			f.Route(methods[i], rs[i].Text, []flamego.Handler{func(c flamego.Context) {
				*hit = i
				c.ResponseWriter().WriteHeader(200)
			}})
			return nil
		}()
		if pan != nil {
			return f, hit, false
		}
	}
	return f, hit, true
}

func c01FlamePhase(r *core.Run, cat []catRoute, paths []string) {
	t0 := time.Now()
	defer func() { r.Notes["phase_wall_s/flame"] = time.Since(t0).Seconds() }()
	reqMethods := []string{"GET", "POST", "BREW"}
	// configurations: every ordered pair of the reduced catalogue under {GG, GP, PG}, and every ordered
	// triple of a small table (a literal path, the optional route whose long form covers it, their
	// dynamic neighbours) under every assignment of {GET, POST} (the trees of the methods are separate;
	// what is registered for one method is no business of the other)
	type config struct {
		rs []catRoute
		ms []string
	}
	var configs []config
	n := len(cat)
	for c := 0; c < n*n; c++ {
		if i, j := c/n, c%n; i != j {
			for _, ms := range [][]string{{"GET", "GET"}, {"GET", "POST"}, {"POST", "GET"}} {
				configs = append(configs, config{[]catRoute{cat[i], cat[j]}, ms})
			}
		}
	}
	if p, err := route.NewParser(); err == nil {
		tri, _ := mkCatalogue(p, []string{"/a/b", "/a/?b", "/a/c", "/a/{p2}", "/{p1}/b", "/a", "/{m1: **}", "/a/?{o2}", "/a/{r2: /b+/}"})
		r.Bounds["flame_triples"] = fmt.Sprintf("ordered triples of %d routes (a route may recur for another method) x {GET,POST}^3", len(tri))
		for a := range tri {
			for b := range tri {
				for c := range tri {
					for bits := 0; bits < 8; bits++ {
						ms := make([]string, 3)
						for k := range ms {
							ms[k] = []string{"GET", "POST"}[(bits>>k)&1]
						}
						// the same route may occur again for another method
						if (a == b && ms[0] == ms[1]) || (b == c && ms[1] == ms[2]) || (a == c && ms[0] == ms[2]) {
							continue
						}
						configs = append(configs, config{[]catRoute{tri[a], tri[b], tri[c]}, ms})
					}
				}
			}
		}
	}
	r.Parallel(func(w, nw int, l *core.Local) {
		env := &c01Env{m: ref.NewMatcher()}
		for ci := w; ci < len(configs); ci += nw {
			if r.Expired() {
				return
			}
			rs, ms := configs[ci].rs, configs[ci].ms
			{
				// reference: one trie per method
				tries := map[string]*ref.Trie{"GET": ref.NewTrie(), "POST": ref.NewTrie()}
				usable := true
				for x, rr := range rs {
					reason, other := tries[ms[x]].Validate(rr.Ref)
					if reason != "" || other {
						usable = false
						break
					}
					tries[ms[x]].Add(rr.Ref)
				}
				if !usable {
					continue
				}
				f, hit, ok := c01FlameBuild(rs, ms)
				if !ok {
					l.Extra["flame_configs_skipped_registration_verdict_differs(C08)"]++
					continue
				}
				l.States++
				var served []c01Req
				// (the texts of the registered routes themselves are asked as well: a pattern is no path of its own)
				cpaths := append(append([]string{}, paths...), c01Texts(rs)...)
				for _, rm := range reqMethods {
					for pi := 0; pi < 2*len(cpaths); pi++ {
						p, spelled := cpaths[pi/2], pi%2 == 1
						req := newReq(rm, p)
						if spelled {
							var ok bool
							if req, ok = newReqSpelled(rm, p); !ok {
								continue
							}
							l.Extra["flame_requests_with_percent_escaped_request_line"]++
						}
						l.Evals++
						l.Transitions++
						l.Traces++
						*hit = -1
						spy := &c01Spy{hdr: http.Header{}}
						pan := func() (pv interface{}) {
							defer func() { pv = recover() }()
							f.ServeHTTP(spy, req)
							return nil
						}()
						cs := c01Case{Routes: c01Texts(rs), Method: ms, Req: rm, Path: p, Spelled: spelled}
						served = append(served, c01Req{rm, p, spelled})
						alone := func() {
							// does a fresh instance show it for this request alone? otherwise the artefact carries the history
							if f2, hit2, ok2 := c01FlameBuild(rs, ms); ok2 {
								*hit2 = -1
								c01ServeReq(f2, c01Req{rm, p, spelled})
								if *hit2 != *hit {
									cs.Served = append([]c01Req{}, served[:len(served)-1]...)
								}
							}
						}
						if pan != nil {
							l.Violate("flame/panic", fmt.Sprintf("ServeHTTP panicked: %v", pan), cs)
							continue
						}
						want := -1
						if t, ok := tries[rm]; ok {
							res := t.Match(env.m, ref.SplitPath(p), nil)
							if res.Found {
								// index among rs of the route with that text and method
								for x, rr := range rs {
									if ms[x] == rm && rr.Text == t.Routes[res.Route].Text() {
										want = x
									}
								}
								if res.Backtracked {
									l.NonTrivial++
								}
							}
						}
						if want >= 0 {
							same := 0
							for _, mm := range ms {
								if mm == rm {
									same++
								}
							}
							if same >= 2 {
								l.NonTrivial++
							}
						}
						if *hit != want {
							alone()
							l.Violate(fmt.Sprintf("flame/wrong-dispatch/want=%v/got=%v", want >= 0, *hit >= 0),
								fmt.Sprintf("request %s %q ran handler of route #%d, documented priority per method picks #%d (-1 = not found) [routes %q methods %v]", rm, p, *hit, want, c01Texts(rs), ms), cs)
							l.Class("mismatch")
							continue
						}
						if want < 0 {
							if spy.code != 404 {
								l.Violate("flame/notfound-status", fmt.Sprintf("no route chosen but status %d", spy.code), cs)
							}
							l.Class("flame:notfound")
						} else {
							l.Class("flame:dispatched")
						}
					}
				}
			}
		}
	})
}

// c01WideTexts: one large table (many siblings of every kind at three levels); registered in every rotation
// of this order and of its reverse, so every route is once the first and once the last of its siblings.
var c01WideTexts = []string{"/a", "/b", "/c", "/ab", "/a-b", "/a+b", "/{p1}", "/{r1: /[abc]+/}", "/{r1b: /a.*/}", "/{m1: **}",
	"/a/a", "/a/b", "/a/c", "/a/ab", "/a/{p2}", "/a/{r2: /[ab]+/}", "/a/{r2b: /b|c/}", "/a/{m2: **}", "/a/{n2: **, capture: 1}/c",
	"/{q1}/b", "/{q1b}/c", "/{s1: /a+/}/b", "/{k1: **}/c", "/{k1: **}/b/{p3w}", "/{k1b: **, capture: 2}/b/c",
	"/a/b/c", "/a/b/a", "/a/b/{p3}", "/a/b/{r3: /c+/}", "/a/{p2c}/c", "/a/{r2c: /[ab]+/}/c", "/b/?c", "/c/?{o2}", "/a/a/?b", "/b/{m2w: **}/c/?{o4w}"}

func c01Wide(r *core.Run, p *route.Parser, paths []string) {
	cat, bad := mkCatalogue(p, c01WideTexts)
	if len(bad) > 0 {
		r.Notes["wide_table_routes_unparseable(C06)"] = len(bad)
	}
	n := len(cat)
	r.Bounds["wide_table"] = fmt.Sprintf("%d routes registered in %d orders (every rotation, forwards and backwards)", n, 2*n)
	r.Parallel(func(w, nw int, l *core.Local) {
		env := &c01Env{m: ref.NewMatcher()}
		for o := w; o < 2*n; o += nw {
			if r.Expired() {
				return
			}
			rs := make([]catRoute, n)
			for i := range rs {
				if o < n {
					rs[i] = cat[(o+i)%n]
				} else {
					rs[i] = cat[((o-n)+n-1-i+n)%n]
				}
			}
			tree, trie, reg, usable := c01Build(rs)
			if !usable {
				l.Extra["configs_skipped_registration_verdict_differs(C08)"]++
				continue
			}
			l.States++
			l.Extra["wide_table_routes_registered"] += int64(len(reg))
			for pi, pth := range paths {
				l.Evals++
				l.Transitions++
				l.Traces++
				bad, key, class, nt := c01Eval(env, tree, trie, pth)
				if nt {
					l.NonTrivial++
				}
				l.Class(class)
				if bad != "" {
					l.Violate("tree/"+key+"/wide-table", bad+fmt.Sprintf(" [wide table in order %d, path %q]", o, pth), c01Case{Routes: c01Texts(rs), Path: pth})
				} else if nt && (o+pi)%997 == 0 {
					l.Sample(map[string]interface{}{"level": "wide table", "order": o, "path": pth, "outcome": class})
				}
			}
		}
	})
}

// c01Literals: every punctuation character the route grammar admits in literal text, next to binds: literal
// text matches literally whatever it means in a regular expression. One route per tree; paths = every
// concatenation of up to four tokens of {x, a, the character, y} as first segment, alone and before /z.
func c01Literals(r *core.Run, p *route.Parser) {
	puncts := "-._~@!$&'()*+;%="
	var texts []string
	charOf := map[string]string{}
	for _, ch := range puncts {
		c := string(ch)
		for _, t := range []string{"/x{p}" + c, "/" + c + "{p}", "/x{p}" + c + "y{q}", "/{p}" + c + "/z", "/x" + c, "/x{r: /[ax]+/}" + c + "y"} {
			texts = append(texts, t)
			charOf[t] = c
		}
	}
	cat, bad := mkCatalogue(p, texts)
	r.Notes["literal_routes_unparseable(C06)"] = len(bad)
	r.Bounds["literal_punctuation"] = fmt.Sprintf("%d routes: six shapes x the %d punctuation characters of literal text", len(cat), len(puncts))
	r.Parallel(func(w, nw int, l *core.Local) {
		env := &c01Env{m: ref.NewMatcher()}
		for ci := w; ci < len(cat); ci += nw {
			if r.Expired() {
				return
			}
			tree, trie, reg, usable := c01Build([]catRoute{cat[ci]})
			if !usable || len(reg) != 1 {
				l.Extra["configs_skipped_registration_verdict_differs(C08)"]++
				continue
			}
			l.States++
			c := charOf[cat[ci].Text]
			segs := stringsOver([]string{"x", "a", c, "y"}, 4)
			for _, sg := range segs {
				for _, tail := range []string{"", "/z"} {
					pth := "/" + sg + tail
					l.Evals++
					l.Transitions++
					l.Traces++
					bad, key, class, _ := c01Eval(env, tree, trie, pth)
					if strings.Contains(sg, c) {
						l.NonTrivial++
					}
					l.Class(class)
					if bad != "" {
						l.Violate("tree/"+key+"/punctuation-in-literal", bad+fmt.Sprintf(" [route %q, path %q]", cat[ci].Text, pth), c01Case{Routes: []string{cat[ci].Text}, Path: pth})
					}
				}
			}
		}
	})
}

// c01Captures: capture limits of every kind (absent, zero and negative = unlimited, one, two, three, the ends of
// the integer range) on a match-all in the middle and at the end of a route, one route per tree, every path of
// up to five segments over {a, b, c}.
func c01Captures(r *core.Run, p *route.Parser) {
	var texts []string
	for _, n := range []string{"-1", "0", "1", "2", "3", "-2", "-9223372036854775808", "9223372036854775807"} {
		texts = append(texts, "/a/{m: **, capture: "+n+"}/c", "/{m: **, capture: "+n+"}", "/a/{m: **, capture: "+n+"}", "/{m: **, capture: "+n+"}/c/?b")
	}
	cat, bad := mkCatalogue(p, texts)
	r.Notes["capture_routes_unparseable(C06)"] = len(bad)
	paths := pathsOver([]string{"a", "b", "c"}, 5, []string{"/a//c", "/a/b//c", "//a/b/c", "/a/c/"})
	r.Bounds["capture_limits"] = fmt.Sprintf("%d routes (four shapes x eight capture values) x %d paths", len(cat), len(paths))
	r.Parallel(func(w, nw int, l *core.Local) {
		env := &c01Env{m: ref.NewMatcher()}
		for ci := w; ci < len(cat); ci += nw {
			if r.Expired() {
				return
			}
			tree, trie, reg, usable := c01Build([]catRoute{cat[ci]})
			if !usable || len(reg) != 1 {
				l.Extra["configs_skipped_registration_verdict_differs(C08)"]++
				continue
			}
			l.States++
			for _, pth := range paths {
				l.Evals++
				l.Transitions++
				l.Traces++
				l.NonTrivial++
				bad, key, class, _ := c01Eval(env, tree, trie, pth)
				l.Class(class)
				if bad != "" {
					l.Violate("tree/"+key+"/capture-limit", bad+fmt.Sprintf(" [route %q, path %q]", cat[ci].Text, pth), c01Case{Routes: []string{cat[ci].Text}, Path: pth})
				}
			}
		}
	})
}

func c01Run(r *core.Run) {
	p, err := route.NewParser()
	if err != nil {
		panic(err)
	}
	alpha := []string{"a", "b", "c", "", "ab", "a-b", "%61", "a+b"}
	specials := []string{"", "//a", "a/", "///a/b", "a", "/a//", "//", "/A", "/a/B", "/A/b/c", "/Ab", "/a/b/C"} // incl. upper-case twins of the literals (matching is case-sensitive)
	r.Assumptions = []string{
		"route sets up to the stated size over the stated segment shapes; path segments over {a,b,c,'',ab,a-b,%61}",
		"Go regexp is trusted (used independently per expression by the reference)",
		"registration verdict differences are C08's finding; such configurations are skipped here and counted",
	}
	r.Rule = "engine E: every ordered tuple of distinct catalogue routes registered on a fresh route.Tree (and Flame for the method dimension) x every path; every tuple also with the whole path set served between its registrations (same final answers required); one table of 34 routes in 68 registration orders; six route shapes with each of the 16 punctuation characters of literal text next to binds x every concatenation of <=4 tokens as path segment; oracle = declarative admission (found iff some form admits) AND the documented priority procedure over a reference trie (winner equality); non-trivial = (set,path) admitted by >=2 registered forms or won after back-tracking out of a higher-ranked branch"
	var maxSegs, pathSegs, pairPathSegs int
	if r.Thorough() {
		r.SetBudget(20 * time.Minute)
		maxSegs, pathSegs, pairPathSegs = 3, 4, 3
	} else {
		r.SetBudget(70 * time.Second)
		maxSegs, pathSegs, pairPathSegs = 2, 3, 3
	}
	full, bad := mkCatalogue(p, c01CatalogueTexts(maxSegs))
	small, bad2 := mkCatalogue(p, c01CatalogueTexts(2))
	reduced, bad3 := mkCatalogue(p, c01ReducedTexts())
	r.Notes["catalogue_routes_unparseable(C06)"] = len(bad) + len(bad2) + len(bad3)
	// keep only individually valid routes (by both sides); others are C08's business
	valid := func(cat []catRoute) []catRoute {
		var out []catRoute
		for _, c := range cat {
			_, _, reg, usable := c01Build([]catRoute{c})
			if usable && len(reg) == 1 {
				out = append(out, c)
			}
		}
		return out
	}
	full, small, reduced = valid(full), valid(small), valid(reduced)
	pathsLong := pathsOver(alpha, pathSegs, specials)
	pathsPair := pathsOver(alpha, pairPathSegs, specials)
	r.Bounds["catalogue_full"] = len(full)
	r.Bounds["catalogue_2seg"] = len(small)
	r.Bounds["catalogue_reduced"] = len(reduced)
	r.Bounds["paths_single"] = len(pathsLong)
	r.Bounds["paths_tuples"] = len(pathsPair)
	r.Bounds["path_alphabet"] = alpha

	c01Literals(r, p)
	c01Captures(r, p)
	c01Configs(r, full, 1, pathsLong, "single")
	if r.Thorough() {
		c01Configs(r, small, 2, pathsLong, "pairs(2seg catalogue, long paths)")
		c01Configs(r, reduced, 3, pathsPair, "triples(reduced)")
		c01Configs(r, full, 2, pathsOver(alpha, 2, specials), "pairs(full catalogue, paths<=2 segments)")
		q := reduced
		if len(q) > 24 {
			q = q[:24]
		}
		c01Configs(r, q, 4, pathsOver(alpha, 2, specials), "quadruples(reduced[:24])")
		r.Bounds["tuples"] = "singles(full) + ordered pairs(full) + ordered triples(reduced) + ordered quadruples(first 24 of reduced)"
	} else {
		c01Configs(r, small, 2, pathsPair, "pairs(2seg)")
		q := reduced
		if len(q) > 30 {
			q = q[:30]
		}
		c01Configs(r, q, 3, pathsOver(alpha, 2, specials), "triples(reduced[:30])")
		r.Bounds["tuples"] = "singles + ordered pairs (<=2-segment catalogue) + ordered triples (first 30 of reduced)"
	}
	c01Wide(r, p, pathsLong)
	fl := reduced
	if !r.Thorough() && len(fl) > 26 {
		fl = fl[:26]
	}
	c01FlamePhase(r, fl, pathsOver(alpha, 2, specials))
	r.Bounds["flame_level"] = fmt.Sprintf("ordered pairs of %d reduced routes x method assignments {GG,GP,PG} x request methods {GET,POST,BREW} x paths<=2 segments, each also with its letters percent-escaped in the request line", len(fl))
}

func c01Replay(raw json.RawMessage) (bool, string) {
	var c c01Case
	if err := json.Unmarshal(raw, &c); err != nil {
		return false, err.Error()
	}
	p, _ := route.NewParser()
	cat, bad := mkCatalogue(p, c.Routes)
	if len(bad) > 0 {
		return false, "routes do not parse: " + strings.Join(bad, " ")
	}
	env := &c01Env{m: ref.NewMatcher()}
	if len(c.Method) == 0 {
		tree, trie, reg, usable := c01Build(cat)
		if !usable || len(reg) == 0 {
			return false, "configuration not registrable as recorded"
		}
		if len(c.Between) > 0 {
			t2, _, _, ok2 := c01BuildServing(cat, c.Between)
			if !ok2 {
				return false, "configuration not registrable as recorded"
			}
			l1, _, f1, _ := safeMatch(tree, c.Path, nil)
			l2, _, f2, pan2 := safeMatch(t2, c.Path, nil)
			if pan2 != nil || f1 != f2 || (f1 && l1.Route() != l2.Route()) {
				return true, fmt.Sprintf("path %q answered differently (found %v vs %v, panic %v) when requests are served between the registrations", c.Path, f2, f1, pan2)
			}
			return false, ""
		}
		for _, h := range c.History {
			safeMatch(tree, h, nil)
		}
		badDesc, _, _, _ := c01Eval(env, tree, trie, c.Path)
		return badDesc != "", badDesc
	}
	tries := map[string]*ref.Trie{"GET": ref.NewTrie(), "POST": ref.NewTrie()}
	for x, rr := range cat {
		tries[c.Method[x]].Add(rr.Ref)
	}
	f, hit, ok := c01FlameBuild(cat, c.Method)
	if !ok {
		return false, "registration panicked"
	}
	for _, q := range c.Served {
		c01ServeReq(f, q)
	}
	*hit = -1
	spy := &c01Spy{hdr: http.Header{}}
	pan := func() (pv interface{}) {
		defer func() { pv = recover() }()
		req := newReq(c.Req, c.Path)
		if c.Spelled {
			req, _ = newReqSpelled(c.Req, c.Path)
		}
		f.ServeHTTP(spy, req)
		return nil
	}()
	if pan != nil {
		return true, fmt.Sprintf("ServeHTTP panicked: %v", pan)
	}
	want := -1
	if t, ok := tries[c.Req]; ok {
		res := t.Match(env.m, ref.SplitPath(c.Path), nil)
		if res.Found {
			for x, rr := range cat {
				if c.Method[x] == c.Req && rr.Text == t.Routes[res.Route].Text() {
					want = x
				}
			}
		}
	}
	if *hit != want {
		return true, fmt.Sprintf("ran handler #%d, expected #%d", *hit, want)
	}
	if want < 0 && spy.code != 404 {
		return true, fmt.Sprintf("not found but status %d", spy.code)
	}
	return false, ""
}

func init() {
	core.Register(&core.Check{ID: "C01", Run: c01Run, Replay: c01Replay})
}
