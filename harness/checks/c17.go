package checks

import (
	"bytes"
	"encoding/json"
	"encoding/xml"
	"fmt"
	"io"
	"net/http"
	"reflect"
	"strings"
	"time"

	"github.com/flamego/flamego"
	"github.com/flamego/flamego/verifharness/core"
)

// ---- C17: Render sends the given status, the right content type and a faithful body (engine E) ----

type c17Flat struct {
	XMLName xml.Name `xml:"flat" json:"-"`
	A       string   `xml:"a" json:"a"`
	B       string   `xml:"b" json:"b"`
}
type c17Nested struct {
	XMLName xml.Name `xml:"nested" json:"-"`
	In      c17Flat  `xml:"flat" json:"in"`
	C       string   `xml:"c" json:"c"`
}
type c17Slice struct {
	XMLName xml.Name `xml:"list" json:"-"`
	Items   []string `xml:"item" json:"items"`
}
type c17Attr struct {
	XMLName xml.Name `xml:"node" json:"-"`
	K       string   `xml:"k,attr" json:"k"`
	V       string   `xml:"v" json:"v"`
}
type c17Chardata struct {
	XMLName xml.Name `xml:"t" json:"-"`
	Lang    string   `xml:"lang,attr" json:"lang"`
	Text    string   `xml:",chardata" json:"text"`
}

// c17Any carries a value behind an interface (what the encoders accept depends on the dynamic type)
type c17Any struct {
	V interface{} `json:"v" xml:"v"`
}

// values with encoding methods of their own
type c17Marshaler struct{ S string }

func (m c17Marshaler) MarshalJSON() ([]byte, error) {
	return []byte(`{ "custom" : "` + m.S + `" }`), nil
}

type c17TextKey struct{ K string }

func (k c17TextKey) MarshalText() ([]byte, error) { return []byte("text:" + k.K), nil }
func (k *c17TextKey) UnmarshalText(b []byte) error {
	k.K = strings.TrimPrefix(string(b), "text:")
	return nil
}

func (m *c17Marshaler) UnmarshalJSON(b []byte) error {
	var x struct{ Custom string }
	err := json.Unmarshal(b, &x)
	m.S = x.Custom
	return err
}

type c17Opts struct {
	Charset    string `json:"charset"`
	JSONIndent string `json:"json_indent"`
	XMLIndent  string `json:"xml_indent"`
}

type c17Op struct {
	Kind   string // JSON XML Binary PlainText
	Status int
	Val    interface{} // value for JSON/XML, []byte for Binary, string for PlainText
}

type c17World struct {
	f      *flamego.Flame
	op     c17Op
	double string // when set, the handler renders this format first and then op (same request)
	// preset: when set, the handler before the rendering one has put this Content-Type on the response (a
	// default-content-type middleware): the render's own Content-Type replaces it
	preset string
}

var c17Presets = []string{"application/json", "Text/XML", "text/plain; charset=utf-8", "text/plain", "application/octet-stream; x=1", "text/html; charset=gbk", "APPLICATION/JSON; charset=latin1", "text/xml;charset=x", "application/octet-stream"}

func c17Build(o c17Opts) *c17World { return c17BuildStacked(o, nil) }

// c17BuildStacked: with o2, a second route /stacked carries a Renderer of its own with other options (its
// responses are not asserted; what it must not do is change what the application's Renderer does elsewhere).
func c17BuildStacked(o c17Opts, o2 *c17Opts) *c17World {
	w := &c17World{f: flamego.NewWithLogger(io.Discard)}
	w.f.Use(flamego.Renderer(flamego.RenderOptions{Charset: o.Charset, JSONIndent: o.JSONIndent, XMLIndent: o.XMLIndent}))
	w.f.Use(func() {}) // some handler in between
	var render func(r flamego.Render)
	if o2 != nil {
		w.f.Get("/stacked", flamego.Renderer(flamego.RenderOptions{Charset: o2.Charset, JSONIndent: o2.JSONIndent, XMLIndent: o2.XMLIndent}), func(r flamego.Render) { render(r) })
	}
	render = func(r flamego.Render) {
		if w.double != "" {
			// a first render of another format in the same request (its own response is not asserted)
			switch w.double {
			case "JSON":
				r.JSON(299, map[string]int{"first": 1})
			case "XML":
				r.XML(299, c17Flat{A: "first"})
			case "Binary":
				r.Binary(299, []byte("first"))
			case "PlainText":
				r.PlainText(299, "first")
			}
		}
		switch w.op.Kind {
		case "JSON":
			r.JSON(w.op.Status, w.op.Val)
		case "XML":
			r.XML(w.op.Status, w.op.Val)
		case "Binary":
			r.Binary(w.op.Status, w.op.Val.([]byte))
		case "PlainText":
			r.PlainText(w.op.Status, w.op.Val.(string))
		}
	}
	w.f.Routes("/", "GET,HEAD,POST", func(c flamego.Context) {
		if w.preset != "" {
			c.ResponseWriter().Header().Set("Content-Type", w.preset)
		}
	}, func(r flamego.Render) { render(r) })
	return w
}

// c17AfterStacked: on a fresh instance the render on the plain route, then a request through the route with a
// second Renderer (other options), then the plain route again: both plain responses follow the application's options.
func c17AfterStacked(o, o2 c17Opts, op c17Op) (bad, kind string) {
	w := c17BuildStacked(o, &o2)
	if bad, kind = c17Judge(w, o, op); bad != "" {
		return bad, kind
	}
	for i := 0; i < 2; i++ {
		w.op = op
		func() {
			defer func() { _ = recover() }()
			w.f.ServeHTTP(&c01Spy{hdr: http.Header{}}, newReq("GET", "/stacked"))
		}()
		if bad, kind = c17Judge(w, o, op); bad != "" {
			return fmt.Sprintf("after %d request(s) through a route with a second Renderer configured %+v: ", i+1, o2) + bad, kind + "/after-second-renderer"
		}
	}
	return "", ""
}

func c17Judge(w *c17World, o c17Opts, op c17Op) (bad, kind string) {
	return c17JudgeM(w, o, op, "GET")
}

func c17JudgeM(w *c17World, o c17Opts, op c17Op, method string) (bad, kind string) {
	w.op = op
	spy := &c01Spy{hdr: http.Header{}}
	var pan interface{}
	func() {
		defer func() { pan = recover() }()
		w.f.ServeHTTP(spy, newReq(method, "/"))
	}()
	if pan != nil {
		return fmt.Sprintf("panicked: %v", pan), "panic"
	}
	if spy.code != op.Status {
		return fmt.Sprintf("status %d sent, %d given", spy.code, op.Status), "status"
	}
	cs := o.Charset
	if cs == "" {
		cs = "utf-8"
	}
	wantCT := map[string]string{"JSON": "application/json; charset=" + cs, "XML": "text/xml; charset=" + cs, "Binary": "application/octet-stream", "PlainText": "text/plain; charset=" + cs}[op.Kind]
	if got := spy.hdr.Get("Content-Type"); got != wantCT {
		return fmt.Sprintf("Content-Type %q, expected %q", got, wantCT), "content-type"
	}
	body := spy.body.String()
	if method == "HEAD" {
		if body != "" {
			return fmt.Sprintf("HEAD request received a body: %q", trunc(body)), "head-body"
		}
		return "", ""
	}
	switch op.Kind {
	case "Binary":
		if body != string(op.Val.([]byte)) {
			return fmt.Sprintf("binary body %x, given %x", trunc(body), trunc(string(op.Val.([]byte)))), "body-verbatim"
		}
	case "PlainText":
		if body != op.Val.(string) {
			return fmt.Sprintf("text body %q, given %q", trunc(body), trunc(op.Val.(string))), "body-verbatim"
		}
	case "JSON":
		var buf bytes.Buffer
		enc := json.NewEncoder(&buf)
		if o.JSONIndent != "" {
			enc.SetIndent("", o.JSONIndent)
		}
		if err := enc.Encode(op.Val); err != nil {
			return "", "" // not encodable: outside the statement
		}
		if body != buf.String() {
			return fmt.Sprintf("JSON body %q differs from the standard encoder's output %q", trunc(body), trunc(buf.String())), "json-text"
		}
		// decode back
		if op.Val == nil {
			var x interface{}
			if err := json.Unmarshal([]byte(body), &x); err != nil || x != nil {
				return "JSON null does not decode back to nil", "json-roundtrip"
			}
			return "", ""
		}
		back := reflect.New(reflect.TypeOf(op.Val))
		if err := json.Unmarshal([]byte(body), back.Interface()); err != nil {
			return fmt.Sprintf("JSON body does not decode: %v", err), "json-roundtrip"
		}
		if !c17JSONEqual(back.Elem().Interface(), op.Val) {
			return fmt.Sprintf("JSON body decodes to %#v, given %#v", back.Elem().Interface(), op.Val), "json-roundtrip"
		}
	case "XML":
		var want []byte
		var err error
		if o.XMLIndent != "" {
			want, err = xml.MarshalIndent(op.Val, "", o.XMLIndent)
		} else {
			want, err = xml.Marshal(op.Val)
		}
		if err != nil {
			return "", ""
		}
		if body != string(want) {
			return fmt.Sprintf("XML body %q differs from the standard encoder's output %q", trunc(body), trunc(string(want))), "xml-text"
		}
		if len(want) == 0 {
			return "", "" // an empty document: nothing to decode
		}
		switch op.Val.(type) {
		case []c17Flat, *c17Flat:
			return "", "" // several top-level elements / pointer targets: only the text is compared
		case c17Any, []interface{}:
			// the dynamic types behind an interface are not in the XML text: only the text is compared
			return "", ""
		}
		back := reflect.New(reflect.TypeOf(op.Val))
		if err := xml.Unmarshal([]byte(body), back.Interface()); err != nil {
			return fmt.Sprintf("XML body does not decode: %v", err), "xml-roundtrip"
		}
		if !c17XMLEqual(back.Elem().Interface(), op.Val) {
			return fmt.Sprintf("XML body decodes to %#v, given %#v", back.Elem().Interface(), op.Val), "xml-roundtrip"
		}
	}
	return "", ""
}

func c17JSONEqual(a, b interface{}) bool {
	ja, _ := json.Marshal(a)
	jb, _ := json.Marshal(b)
	return string(ja) == string(jb) && (reflect.DeepEqual(a, b) || reflect.TypeOf(a).Kind() == reflect.Map || reflect.TypeOf(a).Kind() == reflect.Slice || reflect.TypeOf(a).Kind() == reflect.Interface)
}

func c17XMLEqual(a, b interface{}) bool {
	// an empty slice decodes as nil, and chardata whitespace is preserved: compare via re-encoding and fields
	xa, _ := xml.Marshal(a)
	xb, _ := xml.Marshal(b)
	return string(xa) == string(xb)
}

func c17JSONTrees() []interface{} {
	leaves := []interface{}{nil, true, false, 0.0, -1.5, 1e21, "", "a", "<&>\"' ", "é", "\x00"}
	var out []interface{}
	out = append(out, leaves...)
	for _, a := range leaves {
		out = append(out, []interface{}{a}, map[string]interface{}{"k": a})
		for _, b := range leaves {
			out = append(out, []interface{}{a, b}, map[string]interface{}{"k": a, "<j>": b}, []interface{}{map[string]interface{}{"k": a}, []interface{}{b}}, map[string]interface{}{"o": map[string]interface{}{"k": a}, "l": []interface{}{b, a}})
		}
	}
	out = append(out, c17Flat{A: "x", B: "<y>"}, c17Nested{In: c17Flat{A: "1"}, C: "2"}, c17Slice{Items: []string{"p", "q"}}, []int{1, 2, 3}, map[string]int{"a": 1}, 42, int64(-7), "top-level string", []byte("bytes become base64"),
		c17Any{V: "a"}, c17Any{V: 1.5}, c17Any{V: nil}, c17Any{V: []interface{}{"<", true}},
		// values that bring their own JSON text (the encoder compacts, escapes and indents it like any other)
		json.RawMessage(`{"a": 1,  "b" : "<x>&"}`), json.RawMessage("[1,\n 2]"), json.RawMessage(`"plain"`), json.RawMessage(`{"u":"\u2028"}`),
		[]json.RawMessage{json.RawMessage(`{ "k" : [ true ] }`)}, []json.RawMessage{json.RawMessage(`{"a": "<"}`), json.RawMessage(`null`)},
		c17Marshaler{"<m>"}, &c17Marshaler{"p"}, c17TextKey{"k"}, map[c17TextKey]int{{"<t>"}: 1})
	return out
}

func c17XMLValues() []interface{} {
	vals := []string{"", "a", `<&>"`, "é", " sp ", "]]>"}
	var out []interface{}
	for _, a := range vals {
		for _, b := range vals {
			out = append(out, c17Flat{A: a, B: b}, c17Attr{K: a, V: b}, c17Chardata{Lang: a, Text: b}, c17Slice{Items: []string{a, b}})
			for _, c := range vals {
				out = append(out, c17Nested{In: c17Flat{A: a, B: b}, C: c})
			}
		}
		out = append(out, c17Slice{Items: []string{a}}, c17Slice{}, c17Any{V: a}, []interface{}{a, 1}, []interface{}{c17Flat{A: a}})
	}
	out = append(out, c17Any{V: 7}, c17Any{V: c17Flat{A: "in"}})
	// encodable values whose XML document is empty (the status and Content-Type still go out)
	out = append(out, nil, (*c17Flat)(nil), []c17Flat{}, []string(nil), []c17Flat{{A: "1"}, {A: "2"}}, &c17Flat{A: "p"})
	return out
}

type c17Case struct {
	Opts   c17Opts `json:"options"`
	Kind   string  `json:"method"`
	Status int     `json:"status"`
	Val    string  `json:"value_go_syntax"`
	Index  int     `json:"value_index"`
	Seq    bool    `json:"after_HEAD_GET_POST_sequence,omitempty"`
	// Refused: the request follows, on the same instance, a request whose value the encoder refused
	Refused bool `json:"after_a_request_whose_value_the_encoder_refused,omitempty"`
	// Stacked: the options of a second Renderer on another route that served requests in between
	Stacked *c17Opts `json:"second_renderer_on_another_route,omitempty"`
	// Large: the request follows requests that rendered a large document of the same format
	Large bool `json:"after_large_documents,omitempty"`
	// Preset: the Content-Type an earlier handler of the request had put on the response
	Preset string `json:"content_type_set_before_the_render,omitempty"`
	// Broken: the request follows requests whose underlying writer failed every body write
	Broken bool `json:"after_requests_of_a_client_that_had_gone_away,omitempty"`
}

// c17Refused returns values of the same top-level type as v that the standard encoders refuse (a
// channel / a function behind an interface). Rendering one is outside the statement; the request after it is not.
func c17Refused(v interface{}) []interface{} {
	switch v.(type) {
	case map[string]interface{}:
		return []interface{}{map[string]interface{}{"k": make(chan int)}, map[string]interface{}{"k": "v", "f": func() {}}}
	case []interface{}:
		return []interface{}{[]interface{}{"a", func() {}}, []interface{}{make(chan int)}}
	case c17Any:
		return []interface{}{c17Any{V: make(chan int)}, c17Any{V: func() {}}}
	}
	return nil
}

// c17AfterLarge: on a fresh instance, one or two requests that render a large body (2 KiB) of the same kind,
// then op, a medium body, op again and the large one again: each rendered as on a fresh instance.
func c17AfterLarge(o c17Opts, op c17Op, count func()) (bad, kind string) {
	var large, medium c17Op
	switch op.Kind {
	case "JSON", "XML":
		large = c17Op{op.Kind, 200, c17Flat{A: strings.Repeat("large document ", 140), B: "b"}}
		medium = c17Op{op.Kind, 200, c17Flat{A: strings.Repeat("medium ", 60), B: "m"}}
	case "PlainText":
		large = c17Op{op.Kind, 200, strings.Repeat("large text ", 190)}
		medium = c17Op{op.Kind, 200, strings.Repeat("medium ", 60)}
	default:
		large = c17Op{op.Kind, 200, bytes.Repeat([]byte{0xfe, 0x00, 'x'}, 700)}
		medium = c17Op{op.Kind, 200, bytes.Repeat([]byte{'m', 0xff}, 210)}
	}
	for _, n := range []int{1, 2} {
		w := c17Build(o)
		for i := 0; i < n; i++ {
			count()
			if bad, kind = c17Judge(w, o, large); bad != "" {
				return "large document: " + bad, kind + "/large"
			}
		}
		// large, then the render under test, then a medium one, then the render under test again
		for step, x := range []c17Op{op, medium, op, large} {
			count()
			if bad, kind = c17Judge(w, o, x); bad != "" {
				return fmt.Sprintf("after %d request(s) that rendered a 2 KiB %s body, step %d of the sequence [this render, a 420-byte one, this render, the large one]: ", n, op.Kind, step+1) + bad, kind + "/after-large-document"
			}
		}
	}
	return "", ""
}

// c17AfterRefused: on a fresh instance, a request that renders a refused value of op's type (whatever it
// answers), then op, which must be rendered as on a fresh instance.
// c17BrokenSpy: an underlying writer whose client has gone away - every body write fails.
type c17BrokenSpy struct{ hdr http.Header }

func (s *c17BrokenSpy) Header() http.Header         { return s.hdr }
func (s *c17BrokenSpy) WriteHeader(int)             {}
func (s *c17BrokenSpy) Write(b []byte) (int, error) { return 0, io.ErrClosedPipe }

// c17AfterBroken: one or two requests whose response could not be written (the client had gone), then the
// render again for a healthy client on the same instance.
func c17AfterBroken(o c17Opts, op c17Op, count func()) (bad, kind string) {
	for _, n := range []int{1, 2} {
		w := c17Build(o)
		w.op = op
		for i := 0; i < n; i++ {
			func() {
				defer func() { _ = recover() }()
				w.f.ServeHTTP(&c17BrokenSpy{hdr: http.Header{}}, newReq("GET", "/"))
			}()
		}
		count()
		if bad, kind = c17Judge(w, o, op); bad != "" {
			return fmt.Sprintf("after %d earlier request(s) whose client had gone away (every body write failed): ", n) + bad, kind + "/after-broken-client"
		}
	}
	return "", ""
}

func c17AfterRefused(o c17Opts, op c17Op, count func()) (bad, kind string) {
	if op.Kind != "JSON" && op.Kind != "XML" {
		return "", ""
	}
	for _, rv := range c17Refused(op.Val) {
		for _, n := range []int{1, 2} {
			w := c17Build(o)
			w.op = c17Op{op.Kind, 200, rv}
			for i := 0; i < n; i++ {
				func() {
					defer func() { _ = recover() }()
					w.f.ServeHTTP(&c01Spy{hdr: http.Header{}}, newReq("GET", "/"))
				}()
			}
			count()
			if bad, kind = c17Judge(w, o, op); bad != "" {
				return fmt.Sprintf("after %d earlier request(s) that rendered %s of a value the encoder refuses (%T): ", n, op.Kind, rv) + bad, kind + "/after-refused-value"
			}
		}
	}
	return "", ""
}

func c17Ops(thorough bool) []c17Op {
	var ops []c17Op
	jt := c17JSONTrees()
	xv := c17XMLValues()
	var bins [][]byte
	bins = append(bins, []byte{}, []byte("hello world"), bytes.Repeat([]byte{0xfe, 0x00}, 600))
	// bodies longer than any buffer a render may copy through, with multi-byte characters across every 4 KiB and
	// 32 KiB boundary (as text and as bytes)
	bins = append(bins, []byte("ab"+strings.Repeat("\u65e5\u672c\u8a9e", 4000)), []byte(strings.Repeat("\u00e9", 5000)+"z"), bytes.Repeat([]byte("0123456789abcdef"), 4100), []byte("x"+strings.Repeat("\U0001F600", 9000)))
	for a := 0; a < 256; a++ {
		bins = append(bins, []byte{byte(a)})
	}
	if thorough {
		for a := 0; a < 256; a++ {
			for b := 0; b < 256; b++ {
				bins = append(bins, []byte{byte(a), byte(b)})
			}
		}
	} else {
		for a := 0; a < 256; a += 5 {
			for b := 0; b < 256; b += 7 {
				bins = append(bins, []byte{byte(a), byte(b)})
			}
		}
	}
	// every status with a small value of every kind
	for st := 100; st <= 999; st++ { // everything net/http accepts as a status code
		ops = append(ops, c17Op{"JSON", st, map[string]interface{}{"k": "v"}}, c17Op{"XML", st, c17Flat{A: "x"}}, c17Op{"Binary", st, []byte{0, 255}}, c17Op{"PlainText", st, "text"})
	}
	for _, st := range []int{200, 404, 503} {
		for _, v := range jt {
			ops = append(ops, c17Op{"JSON", st, v})
		}
		for _, v := range xv {
			ops = append(ops, c17Op{"XML", st, v})
		}
		if st == 200 || thorough {
			for _, b := range bins {
				ops = append(ops, c17Op{"Binary", st, b}, c17Op{"PlainText", st, string(b)})
			}
		}
	}
	return ops
}

func c17Run(r *core.Run) {
	r.SetBudget(80 * time.Second)
	if r.Thorough() {
		r.SetBudget(18 * time.Minute)
	}
	var optsets []c17Opts
	for _, cs := range []string{"", "gbk"} {
		for _, ji := range []string{"", "  "} {
			for _, xi := range []string{"", "\t"} {
				optsets = append(optsets, c17Opts{Charset: cs, JSONIndent: ji, XMLIndent: xi})
			}
		}
	}
	ops := c17Ops(r.Thorough())
	r.Rule = "engine E: every status 100..999 x {JSON, XML, Binary, PlainText} x all 8 option sets (charset x JSON indent x XML indent); values: every byte string of length <=1 and a grid (thorough: all) of length 2 plus longer ones for Binary/PlainText, JSON trees over {null,bool,numbers,strings incl. html-sensitive and non-ASCII} to depth 2 width 2 plus structs/slices/maps, five XML struct shapes with all field values from {'', a, <&>\", e-acute, blanks, ]]>}; every fourth render also with each of nine Content-Type values already put on the response by an earlier handler; every third render also around requests through a route that carries a second Renderer with other options; every third render also inside sequences of large (2 KiB), medium and small bodies of its kind on the same instance; every fourth render also as the request after one or two requests whose underlying writer failed every body write; every JSON/XML value with an interface in it also as the request after one or two requests (same instance) whose value of the same type the encoder refused; oracle: exact status at the underlying writer, exact Content-Type, bytes/strings verbatim, JSON/XML text equal to the standard encoder's output with the configured indentation and decoding back to an equal value; non-trivial = non-200 status or a value that needs escaping"
	r.Bounds["ops"] = len(ops)
	r.Bounds["option_sets"] = len(optsets)
	r.Assumptions = []string{"encoding/json and encoding/xml are the reference encoders (trusted)", "values the standard encoders refuse are outside the statement"}
	r.Parallel(func(w, nw int, l *core.Local) {
		// every (render, option set) is an episode on a FRESH instance, so that whatever a render leaves
		// behind can only affect the requests of its own, replayable, episode
		worlds := make([]*c17World, len(optsets))
		for oi := w; oi < len(ops); oi += nw {
			if (oi/nw)%32 == 0 && r.Expired() {
				return
			}
			op := ops[oi]
			for si, o := range optsets {
				worlds[si] = c17Build(o)
				l.States++
				l.Evals++
				l.Transitions++
				l.Traces++
				if op.Status != 200 {
					l.NonTrivial++
				}
				bad, kind := c17Judge(worlds[si], o, op)
				preset := ""
				if bad == "" && (oi+si)%4 == 1 {
					for _, ps := range c17Presets {
						l.Evals++
						l.Transitions++
						l.Traces++
						l.NonTrivial++
						worlds[si].preset = ps
						bad, kind = c17Judge(worlds[si], o, op)
						worlds[si].preset = ""
						if bad != "" {
							bad = fmt.Sprintf("with Content-Type %q already on the response when the render is called: ", ps) + bad
							kind += "/content-type-set-before"
							preset = ps
							break
						}
						l.Class("content-type-set-before-the-render")
					}
				}
				seq := false
				if bad == "" && (oi+si)%3 == 0 {
					seq = true
					// the same render for a HEAD and a POST request, then again for GET: requests must not
					// leave anything behind that a later response picks up
					for _, m := range []string{"HEAD", "GET", "POST"} {
						l.Evals++
						l.Transitions++
						l.Traces++
						if bad, kind = c17JudgeM(worlds[si], o, op, m); bad != "" {
							bad = "in the request sequence HEAD, GET, POST with the same render, at " + m + ": " + bad
							kind += "/" + m
							break
						}
					}
					if bad == "" {
						// one request that renders two different formats, then the plain render again: whatever the
						// double render sends, it must leave nothing behind for later requests
						for _, other := range []string{"JSON", "XML", "Binary", "PlainText"} {
							if other == op.Kind {
								continue
							}
							for _, first := range []string{other, op.Kind} {
								second := op
								if first == op.Kind {
									second = c17Op{other, 200, map[string]interface{}{"JSON": map[string]int{"x": 1}, "XML": c17Flat{A: "x"}, "Binary": []byte("x"), "PlainText": "x"}[other]}
								}
								worlds[si] = c17Build(o) // each double-render episode starts from a fresh instance
								l.States++
								worlds[si].double = first
								worlds[si].op = second
								func() {
									defer func() { _ = recover() }()
									worlds[si].f.ServeHTTP(&c01Spy{hdr: http.Header{}}, newReq("GET", "/"))
								}()
								worlds[si].double = ""
								l.Evals++
								l.Transitions++
								l.Traces++
								if bad, kind = c17Judge(worlds[si], o, op); bad != "" {
									bad = "after an earlier request that rendered " + first + " and then another format: " + bad
									kind += "/after-double-render"
									break
								}
							}
							if bad != "" {
								break
							}
						}
					}
				}
				var stacked *c17Opts
				if bad == "" && seq {
					for _, d := range []int{1, 3, 6} {
						o2 := optsets[(si+d)%len(optsets)]
						l.States++
						l.Evals++
						l.Transitions += 5
						l.Traces++
						l.Extra["episodes_with_a_second_renderer"]++
						if bad, kind = c17AfterStacked(o, o2, op); bad != "" {
							stacked = &o2
							break
						}
					}
				}
				afterLarge := false
				if bad == "" && seq {
					bad, kind = c17AfterLarge(o, op, func() {
						l.Evals++
						l.Transitions++
						l.Traces++
						l.Extra["requests_around_large_documents"]++
					})
					afterLarge = bad != ""
				}
				refused := false
				if bad == "" {
					bad, kind = c17AfterRefused(o, op, func() {
						l.States++
						l.Evals++
						l.Transitions += 2
						l.Traces++
						l.Extra["requests_after_a_refused_value"]++
					})
					refused = bad != ""
				}
				broken := false
				if bad == "" && (oi+si)%4 == 2 {
					bad, kind = c17AfterBroken(o, op, func() {
						l.States++
						l.Evals++
						l.Transitions += 2
						l.Traces++
						l.Extra["requests_after_a_broken_client"]++
					})
					broken = bad != ""
				}
				if bad != "" {
					l.Class("mismatch")
					l.Violate(kind+"/"+op.Kind, bad+fmt.Sprintf(" [options %+v, %s(%d, %s)]", o, op.Kind, op.Status, trunc(fmt.Sprintf("%#v", op.Val))), c17Case{Opts: o, Kind: op.Kind, Status: op.Status, Val: trunc(fmt.Sprintf("%#v", op.Val)), Index: oi, Refused: refused, Stacked: stacked, Large: afterLarge, Preset: preset, Broken: broken,
						Seq: seq && !refused && stacked == nil && !afterLarge && (strings.HasPrefix(bad, "in the request sequence") || strings.HasPrefix(bad, "after an earlier request"))})
					continue
				}
				l.Class(fmt.Sprintf("%s:%dxx", op.Kind, op.Status/100))
				if (oi+si)%3001 == 0 {
					l.Sample(c17Case{Opts: o, Kind: op.Kind, Status: op.Status, Val: trunc(fmt.Sprintf("%#v", op.Val)), Index: oi})
				}
			}
		}
	})
	// availability: present after the middleware in the same request, absent without it
	l := core.NewLocal()
	{
		f := flamego.NewWithLogger(io.Discard)
		got := 0
		f.Get("/with", flamego.Renderer(), func(r flamego.Render) { got++; r.PlainText(201, "ok") })
		f.Get("/without", func(r flamego.Render) { got += 100 })
		spy := &c01Spy{hdr: http.Header{}}
		f.ServeHTTP(spy, newReq("GET", "/with"))
		l.Evals++
		l.Transitions++
		l.Traces++
		if got != 1 || spy.code != 201 {
			l.Violate("availability", "Render not available to a handler after the Renderer middleware", c17Case{Kind: "availability"})
		}
		var pan interface{}
		func() {
			defer func() { pan = recover() }()
			f.ServeHTTP(&c01Spy{hdr: http.Header{}}, newReq("GET", "/without"))
		}()
		l.Evals++
		l.Transitions++
		l.Traces++
		if pan == nil || got != 1 || !strings.Contains(fmt.Sprint(pan), "Render") {
			l.Violate("availability", fmt.Sprintf("Render resolved in a request without the middleware (leaked from another request?): got=%d panic=%v", got, pan), c17Case{Kind: "availability"})
		} else {
			l.Class("availability:per-request")
		}
		l.States++
	}
	// availability at every point of a request at which the Renderer middleware can run: as application
	// middleware, group handler or route handler; reached by the chain advancing on its own, by an explicit Next()
	// of a handler that has not written, and by the explicit Next() calls of a handler that HAS written (the chain
	// does not advance on its own after that); every later handler of the request resolves a Render
	for _, place := range []string{"use", "group", "route"} {
		for _, drive := range []string{"automatic", "next", "written-then-next"} {
			f := flamego.NewWithLogger(io.Discard)
			var ran []string
			first := func(c flamego.Context) {
				switch drive {
				case "next":
					c.Next()
				case "written-then-next":
					c.ResponseWriter().WriteHeader(299)
					for i := 0; i < 6; i++ {
						c.Next()
					}
				}
			}
			h1 := func(r flamego.Render) { ran = append(ran, "h1") }
			h2 := func(c flamego.Context, r flamego.Render) { ran = append(ran, "h2") }
			switch place {
			case "use":
				f.Use(first, flamego.Renderer())
				f.Get("/x", h1, h2)
			case "group":
				f.Use(first)
				f.Group("/g", func() { f.Get("/x", h1, h2) }, flamego.Renderer())
			case "route":
				f.Get("/x", first, flamego.Renderer(), h1, h2)
			}
			path := "/x"
			if place == "group" {
				path = "/g/x"
			}
			var pan interface{}
			func() {
				defer func() { pan = recover() }()
				f.ServeHTTP(&c01Spy{hdr: http.Header{}}, newReq("GET", path))
			}()
			l.Evals++
			l.Transitions++
			l.Traces++
			l.States++
			l.NonTrivial++
			if pan != nil || strings.Join(ran, ",") != "h1,h2" {
				l.Class("mismatch")
				l.Violate("availability/"+place+"/"+drive, fmt.Sprintf("Renderer as %s handler, chain driven %s: the handlers after it that ask for a Render ran %v (panic %v), expected [h1 h2]", place, drive, ran, pan), c17Case{Kind: "availability"})
			} else {
				l.Class("availability:" + drive)
			}
		}
	}
	// the configured charset goes out as configured: names of every spelling the registries use
	for _, cs := range c17Charsets {
		for _, op := range c17CharsetOps {
			for _, ind := range []string{"", " "} {
				o := c17Opts{Charset: cs, JSONIndent: ind, XMLIndent: ind}
				l.Evals++
				l.Transitions++
				l.Traces++
				l.States++
				l.NonTrivial++
				if bad, kind := c17Judge(c17Build(o), o, op); bad != "" {
					l.Class("mismatch")
					l.Violate(kind+"/charset-name/"+op.Kind, bad+fmt.Sprintf(" [options %+v, %s(%d)]", o, op.Kind, op.Status), c17Case{Opts: o, Kind: "charset:" + op.Kind, Status: op.Status})
				} else {
					l.Class("charset-names")
				}
			}
		}
	}
	// indentations made of blanks only, spread differently over the two options (and over the charset)
	for _, o := range []c17Opts{{"", "  ", ""}, {"", "", "  "}, {"", " ", " "}, {"", "   ", " "}, {"", " ", "   "}, {" ", "", " "}, {"", "\t", ""}, {"", "", "\t"}, {"", " \t", ""}, {"", "", " \t"}} {
		for _, op := range c17CharsetOps[:2] {
			l.Evals++
			l.Transitions++
			l.Traces++
			l.States++
			l.NonTrivial++
			if bad, kind := c17Judge(c17Build(o), o, op); bad != "" {
				l.Class("mismatch")
				l.Violate(kind+"/blank-indentations/"+op.Kind, bad+fmt.Sprintf(" [options %+q, %s(%d)]", o, op.Kind, op.Status), c17Case{Opts: o, Kind: "charset:" + op.Kind, Status: op.Status})
			} else {
				l.Class("blank-indentations")
			}
		}
	}
	r.Bounds["charset_names"] = c17Charsets
	r.Merge(l)
}

var c17Charsets = []string{"utf-8", "UTF-8", "ISO-8859-1", "Shift_JIS", "KS_C_5601-1987", "windows-1252", "US-ASCII", "utf-16le", "x-user.defined:1+2", "cp 437", "latin1;q=1", "\"quoted\"", "gb2312"}
var c17CharsetOps = []c17Op{{"JSON", 200, map[string]int{"x": 1}}, {"XML", 201, c17Flat{A: "x"}}, {"Binary", 200, []byte("x")}, {"PlainText", 404, "x"}}

func c17Replay(raw json.RawMessage) (bool, string) {
	var c c17Case
	if err := json.Unmarshal(raw, &c); err != nil {
		return false, err.Error()
	}
	if c.Kind == "availability" {
		return false, "re-run the check"
	}
	if strings.HasPrefix(c.Kind, "charset:") {
		for _, op := range c17CharsetOps {
			if "charset:"+op.Kind == c.Kind {
				bad, _ := c17Judge(c17Build(c.Opts), c.Opts, op)
				return bad != "", bad
			}
		}
		return false, "case not found"
	}
	for _, th := range []bool{false, true} {
		ops := c17Ops(th)
		if c.Index < len(ops) && ops[c.Index].Kind == c.Kind && ops[c.Index].Status == c.Status && trunc(fmt.Sprintf("%#v", ops[c.Index].Val)) == c.Val {
			w := c17Build(c.Opts)
			w.preset = c.Preset
			bad, _ := c17Judge(w, c.Opts, ops[c.Index])
			w.preset = ""
			if bad == "" && c.Seq {
				for _, m := range []string{"HEAD", "GET", "POST"} {
					if bad, _ = c17JudgeM(w, c.Opts, ops[c.Index], m); bad != "" {
						break
					}
				}
				op := ops[c.Index]
				for _, other := range []string{"JSON", "XML", "Binary", "PlainText"} {
					if other == op.Kind || bad != "" {
						continue
					}
					for _, first := range []string{other, op.Kind} {
						second := op
						if first == op.Kind {
							second = c17Op{other, 200, map[string]interface{}{"JSON": map[string]int{"x": 1}, "XML": c17Flat{A: "x"}, "Binary": []byte("x"), "PlainText": "x"}[other]}
						}
						w = c17Build(c.Opts)
						w.double, w.op = first, second
						func() {
							defer func() { _ = recover() }()
							w.f.ServeHTTP(&c01Spy{hdr: http.Header{}}, newReq("GET", "/"))
						}()
						w.double = ""
						if bad, _ = c17Judge(w, c.Opts, op); bad != "" {
							break
						}
					}
				}
			}
			if bad == "" && c.Large {
				bad, _ = c17AfterLarge(c.Opts, ops[c.Index], func() {})
			}
			if bad == "" && c.Stacked != nil {
				bad, _ = c17AfterStacked(c.Opts, *c.Stacked, ops[c.Index])
			}
			if bad == "" && c.Refused {
				bad, _ = c17AfterRefused(c.Opts, ops[c.Index], func() {})
			}
			if bad == "" && c.Broken {
				bad, _ = c17AfterBroken(c.Opts, ops[c.Index], func() {})
			}
			return bad != "", bad
		}
	}
	return false, "case not found in the catalogue"
}

func init() {
	core.Register(&core.Check{ID: "C17", Run: c17Run, Replay: c17Replay})
}
