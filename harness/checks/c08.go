package checks

import (
	"encoding/json"
	"fmt"
	"io"
	"net/http"
	"strings"
	"time"

	"github.com/flamego/flamego"
	"github.com/flamego/flamego/internal/route"
	"github.com/flamego/flamego/verifharness/core"
	"github.com/flamego/flamego/verifharness/ref"
)

// ---- C08: registration validated up front (engine E over histories) ----

var c08WellFormed = []string{
	// literal text with every kind of punctuation next to binds (accepted, and reachable by their own instances)
	"/x{p}$", "/${p}", "/e/$H-{t}", "/c/{p}$/d", "/a^b", "/x{p}~", "/@{p}", "/x{p}!y", "/a&{p}", "/x'{p}", "/({p})", "/*{p}", "/{p};{q}", "/{p}%7E", "/a={p}",
	"/", "/a", "/b", "/a/", "/a/b", "/a/?b", "/a/?", "/?", "/?b", "/?{p}", "/{p}", "/{q}", "/{p}/b", "/a/{p}", "/a/?{p}",
	"/{r: /a|c/}", "/{r: /a|c/}/b", "/a-{t}", "/a+b{c}", "/p(q{c}", "/{g: /(a|c)+/}/b", "/{g: /(a|c)+/}",
	"/{m: **}", "/{n: **}", "/{m: **, capture: 2}", "/{**}", "/{m: **}/x", "/{n: **}/y", "/{m: **}/x/{k: **}",
	"/a/{m: **}", "/a/{n: **}", "/a/{m: **}/c", "/a/{n: **}/c", "/{m: **}/?b", "/{y: /a/, z: /b/}", "/a/b/c", "/a/b/?c",
	"/{**}/x", "/a/{**}/c", "/{**}/x/{k: **}", "/{**}/?b",
	"/{p}/{q}", "/{p}/{m: **}", "/a/?{m: **}", "/a/?{n: **}", "/x.y", "/{p}.{q}", "/a/{p}/?c", "/a/{q}/c", "/{m: **}/?{p}",
}

var c08IllFormed = []string{
	"/{a}/{a}", "/{a}/x/{a: **}", "/{a}-{a}", "/{a: /x/, a: /y/}", "/{a: /x/}{a}", "/{a}/{b: /x/, a: /y/}", "/{**}/x/{**}",
	"/?a/b", "/a/?b/c", "/?/a", "/a//b", "//a", "//", "/a//", "/a/{p}//",
	"/{a: **}/x/{b: **}/y", "/{a: **}/{b: **}/c",
	"/{a: /[/}", "/{a: /(/}", "/{a: /)(/}", "/x{a: /*/}", "/{a: /a/, b: /(/}", "/{a: /a)(b/}{c}",
}

// bind reuse for every (ancestor kind x descendant kind) pair, descendant final or followed by more
func c08BindReuse() []string {
	anc := []string{"{a}", "{a: /x/}", "x{a}", "{a: **}", "{a: /x/}-{b}"}
	desc := []string{"{a}", "{a: /y/}", "y{a}", "{a: **}", "{c: /y/, a: /z/}"}
	var out []string
	for _, an := range anc {
		for _, de := range desc {
			out = append(out, "/"+an+"/"+de, "/"+an+"/m/"+de, "/"+an+"/"+de+"/z", "/p/"+an+"/m/"+de+"/z")
		}
	}
	return out
}

var c08Ungrammatical = []string{
	"", "a", "a/b", "/a{", "/{a", "/{a:}", "/a?", "/{a: /x}", "/{}", "/a b", "/{a: b c}", "/a/{", "/}", "/{a}}", "/a:b", "/[a]", "/a,b",
	"/{a: /x//}", "/{a: //}", "/{a :b}", "/{a: /x/ }", "/a\t", "/{a:\tb}", "/{a: /x/b: /y/}", "/{a,b}", "/{a: /x/,}", "/\x00", "/\xff",
}

var c08Other = []string{"/{a: b}", "/{a: **}x", "/{a: **, b: /x/}", "/{a: /x/, b: **}", "/{a: **, capture: x}", "/x{a: **}"}

type c08Entry struct {
	Text       string
	Gram       bool // the reference grammar accepts
	Determined bool
	Ref        ref.Route
	AST        *route.Route // nil when the real parser rejects
	ParseErr   string
}

func c08Catalogue(p *route.Parser) []c08Entry {
	var out []c08Entry
	seen := map[string]bool{}
	add := func(texts []string) {
		for _, t := range texts {
			if seen[t] {
				continue
			}
			seen[t] = true
			e := c08Entry{Text: t}
			e.Ref, e.Gram, e.Determined = ref.Parse(t)
			ast, err := p.Parse(t)
			if err == nil {
				e.AST = ast
			} else {
				e.ParseErr = err.Error()
			}
			out = append(out, e)
		}
	}
	add(c08WellFormed)
	add(c08IllFormed)
	add(c08BindReuse())
	add(c08Ungrammatical)
	add(c08Other)
	return out
}

type c08Case struct {
	Registered []string `json:"registered_first"`
	Candidate  string   `json:"candidate"`
	Method     string   `json:"method,omitempty"`
	RegMethods []string `json:"registered_methods,omitempty"`
	Flame      bool     `json:"flame_level,omitempty"`
}

func c08Category(reason string) string {
	if i := strings.Index(reason, ":"); i >= 0 {
		reason = reason[:i]
	}
	return reason
}

// c08Step registers one entry on tree+trie. verdict: "accept", "reject", "skip" (no verdict:
// unclassified shape or undetermined grammar); bad != "" on a disagreement.
func c08Step(m *ref.Matcher, tree route.Tree, trie *ref.Trie, e c08Entry) (verdict, bad, key string) {
	if !e.Determined {
		// the documentation does not settle whether the text is a route (characters on which README and lexer
		// differ): no verdict on acceptance - but once it is accepted, it is reachable by its own instances
		if e.AST == nil {
			return "skip", "", ""
		}
		rf := astToRef(e.AST)
		if reason, other := trie.Validate(rf); reason != "" || other {
			return "skip", "", ""
		}
		_, err, pan := safeAddRoute(tree, e.AST)
		if pan != nil {
			return "reject", fmt.Sprintf("AddRoute panicked at run time instead of returning a verdict: %v", pan), "runtime-panic-at-registration/undetermined-grammar"
		}
		if err != nil {
			return "skip", "", ""
		}
		trie.Add(rf)
		if bad, key := c08OwnInstances(m, tree, trie, rf); bad != "" {
			return "accept", bad, key
		}
		return "accept", "", ""
	}
	if !e.Gram {
		if e.AST != nil {
			return "reject", "route text outside the grammar was parsed", "accepted-but-must-reject/outside the grammar"
		}
		return "reject", "", ""
	}
	if e.AST == nil {
		return "skip", "", "" // grammatical text rejected by the parser: C06's finding
	}
	reason, other := trie.Validate(e.Ref)
	if other {
		return "skip", "", ""
	}
	leaf, err, pan := safeAddRoute(tree, e.AST)
	if pan != nil {
		return "reject", fmt.Sprintf("AddRoute panicked at run time instead of returning a verdict: %v (reference verdict: %s)", pan, map[bool]string{true: "accept", false: "reject: " + reason}[reason == ""]),
			"runtime-panic-at-registration/" + map[bool]string{true: "wellformed", false: "illformed"}[reason == ""]
	}
	if reason != "" {
		if err == nil {
			return "reject", "accepted although it must be rejected: " + reason, "accepted-but-must-reject/" + c08Category(reason)
		}
		return "reject", "", ""
	}
	if err != nil {
		return "accept", "rejected although it is well-formed and collides with nothing: " + err.Error(), "rejected-but-wellformed/" + c08Shape(e.Ref)
	}
	trie.Add(e.Ref)
	if bad, key := c08OwnInstances(m, tree, trie, e.Ref); bad != "" {
		return "accept", bad, key
	}
	_ = leaf
	return "accept", "", ""
}

// c08OwnInstances: a route that was just accepted is reachable by its own instances subject only to priority.
func c08OwnInstances(m *ref.Matcher, tree route.Tree, trie *ref.Trie, rt ref.Route) (bad, key string) {
	for fi, form := range rt.Forms() {
		inst, ok := m.Instance(form)
		if !ok {
			continue
		}
		raw := "/" + strings.Join(inst, "/")
		got, _, found, mpan := safeMatch(tree, raw, nil)
		if mpan != nil {
			return fmt.Sprintf("serving its own instance %q panicked: %v", raw, mpan), "instance-panic"
		}
		want := trie.Match(m, ref.SplitPath(raw), nil)
		if !want.Found {
			continue // instance trimmed to something else (e.g. leading empty segment)
		}
		if !found {
			return fmt.Sprintf("accepted but its own instance %q (form %d) is not found", raw, fi), "unreachable-after-accept/" + c08Shape(rt)
		}
		if got.Route() != trie.Routes[want.Route].Text() {
			return fmt.Sprintf("instance %q dispatched to %q, priority picks %q", raw, got.Route(), trie.Routes[want.Route].Text()), "instance-wrong-winner"
		}
	}
	return "", ""
}

// c08DeepTexts: routes of four to eight bind-carrying segments that share long prefixes and differ in the
// names further down (bind names are checked along ONE route; what a sibling branch is called is no
// business of a route); some reuse a name along their own path and must be refused.
var c08DeepTexts = []string{"/{a}/{b}/{c}/{d}/{e}", "/{a}/{b}/{c}/{f}/{g}/s", "/{a}/{b}/{c}/{d}/{f}/r", "/{a}/{b}/{c}/{d}/{d}/r",
	"/{a}/{b}/{c}/{f}/{f}", "/{a}/{b}/{c}/{d}", "/{a}/{b}/{c}/{f}/{a}/t", "/{a}/{b}/{x}/{d}/{e}/{g}/u", "/{a}/{b}/{c}/{d}/{e}/{f}/{g}/{h}",
	"/{a}/{b}/{c}/{e}/{d}/v", "/{a}/{b}/{c}/{g}/{f}/{d}/{e}/w", "/{a}/{b}/{c}/{d}/{g}/{g}"}

// c08Deep: every history of three distinct deep routes (rejected registrations stay in the history: they
// must leave nothing behind), the verdict of each registration compared with the reference validator.
func c08Deep(r *core.Run, p *route.Parser) {
	var es []c08Entry
	for _, t := range c08DeepTexts {
		e := c08Entry{Text: t}
		e.Ref, e.Gram, e.Determined = ref.Parse(t)
		if ast, err := p.Parse(t); err == nil {
			e.AST = ast
		}
		es = append(es, e)
	}
	n := len(es)
	r.Bounds["deep_histories"] = fmt.Sprintf("every ordered triple of %d distinct deep routes", n)
	r.Parallel(func(w, nw int, l *core.Local) {
		m := ref.NewMatcher()
		for c := w; c < n*n*n; c += nw {
			i, j, k := c/(n*n), (c/n)%n, c%n
			if i == j || j == k || i == k {
				continue
			}
			tree, trie := route.NewTree(), ref.NewTrie()
			var hist []string
			l.States++
			for step, x := range []int{i, j, k} {
				l.Evals++
				l.Transitions++
				l.Traces++
				l.NonTrivial++
				v, bad, key := c08Step(m, tree, trie, es[x])
				if bad != "" {
					l.Class("mismatch")
					l.Violate("tree/"+key+"/deep-history", bad+fmt.Sprintf(" [registered %q, candidate %q]", hist, es[x].Text), c08Case{Registered: append([]string{}, hist...), Candidate: es[x].Text})
					break
				}
				l.Class("candidate:" + v)
				if v == "reject" {
					hist = append(hist, es[x].Text+" (rejected)")
				} else {
					hist = append(hist, es[x].Text)
				}
				_ = step
			}
		}
	})
}

// c08SiblingFamilies: five routes that differ in the kind of the segment at one position (as subtrees and
// as leaves). Every order of registering them is a valid history; afterwards each of them registered
// again is a duplicate, and a differently named match-all at the position is refused.
var c08SiblingFamilies = [][]string{
	{"/s/about/x", "/s/contact/y", "/s/{user}/p", "/s/{r: /[0-9]+/}/q", "/s/{path: **}/raw", "/s/{other: **}/raw"},
	{"/f/index", "/f/help", "/f/{name}", "/f/{id: /[0-9]+/}", "/f/{path: **}", "/f/{other: **}"},
}

// c08StillReachable: every registered route is reachable by its own instances subject only to priority - also
// after further registrations and refused attempts.
func c08StillReachable(m *ref.Matcher, tree route.Tree, trie *ref.Trie) (bad, key string) {
	for _, rt := range trie.Routes {
		for fi, form := range rt.Forms() {
			inst, ok := m.Instance(form)
			if !ok {
				continue
			}
			raw := "/" + strings.Join(inst, "/")
			got, _, found, mpan := safeMatch(tree, raw, nil)
			if mpan != nil {
				return fmt.Sprintf("serving the instance %q of the registered route %q panicked: %v", raw, rt.Text(), mpan), "instance-panic"
			}
			want := trie.Match(m, ref.SplitPath(raw), nil)
			if !want.Found {
				continue
			}
			if !found {
				return fmt.Sprintf("the registered route %q is no longer reachable: its instance %q (form %d) is not found", rt.Text(), raw, fi), "unreachable-after-later-registrations"
			}
			if got.Route() != trie.Routes[want.Route].Text() {
				return fmt.Sprintf("instance %q of the registered route %q dispatched to %q, priority picks %q", raw, rt.Text(), got.Route(), trie.Routes[want.Route].Text()), "instance-wrong-winner"
			}
		}
	}
	return "", ""
}

func c08Siblings(r *core.Run, p *route.Parser) {
	perms := func(n int) [][]int {
		var out [][]int
		var rec func(cur []int, used int)
		rec = func(cur []int, used int) {
			if len(cur) == n {
				out = append(out, append([]int{}, cur...))
				return
			}
			for i := 0; i < n; i++ {
				if used&(1<<i) == 0 {
					rec(append(cur, i), used|1<<i)
				}
			}
		}
		rec(nil, 0)
		return out
	}(5)
	r.Bounds["sibling_insertion_histories"] = fmt.Sprintf("%d families x %d orders of five siblings, each followed (every second time after two attempts refused below a literal of their own that sorts first, with every registered route still reachable) by every duplicate and a second match-all", len(c08SiblingFamilies), len(perms))
	type job struct {
		fam  int
		perm []int
	}
	var jobs []job
	for fi := range c08SiblingFamilies {
		for _, pm := range perms {
			jobs = append(jobs, job{fi, pm})
		}
	}
	r.Parallel(func(w, nw int, l *core.Local) {
		m := ref.NewMatcher()
		mk := func(t string) c08Entry {
			e := c08Entry{Text: t}
			e.Ref, e.Gram, e.Determined = ref.Parse(t)
			if ast, err := p.Parse(t); err == nil {
				e.AST = ast
			}
			return e
		}
		for ji := w; ji < len(jobs); ji += nw {
			fam := c08SiblingFamilies[jobs[ji].fam]
			var order []string
			for _, i := range jobs[ji].perm {
				order = append(order, fam[i])
			}
			// then: every one of the five again, and the differently named match-all, in the family's order
			tail := append(append([]string{}, fam[:5]...), fam[5])
			for ti := range tail {
				// a fresh tree per probe of the tail: five registrations, then ONE further attempt
				tree, trie := route.NewTree(), ref.NewTrie()
				var hist []string
				ok := true
				for _, t := range order {
					l.Evals++
					l.Transitions++
					l.Traces++
					v, bad, key := c08Step(m, tree, trie, mk(t))
					if bad != "" {
						l.Class("mismatch")
						l.Violate("tree/"+key+"/sibling-insertion", bad+fmt.Sprintf(" [registered %q, candidate %q]", hist, t), c08Case{Registered: append([]string{}, hist...), Candidate: t})
						ok = false
						break
					}
					l.Class("candidate:" + v)
					hist = append(hist, t)
				}
				if !ok {
					break
				}
				if ti%2 == 1 {
					// attempts that are refused two segments below a literal of their own among the siblings (and at the root):
					// each it leaves the siblings as they were, in their order
					top := "/" + strings.SplitN(fam[0], "/", 3)[1] // the segment the siblings hang below
					for _, refusedText := range []string{top + "/0/{i}/{i}", top + "/~/{m: **}/{n: **}/z", "/0/{i}/{i}"} {
						l.Evals++
						l.Transitions++
						if v, bad, key := c08Step(m, tree, trie, mk(refusedText)); bad != "" || v == "accept" {
							l.Class("mismatch")
							l.Violate("tree/"+key+"/sibling-insertion", bad+fmt.Sprintf(" [registered %q, candidate %q, verdict %s]", hist, refusedText, v), c08Case{Registered: append([]string{}, hist...), Candidate: refusedText})
							ok = false
							break
						}
						hist = append(hist, refusedText+" (rejected)")
					}
					if bad, key := c08StillReachable(m, tree, trie); ok && bad != "" {
						l.Class("mismatch")
						l.Violate("tree/"+key+"/sibling-insertion", bad+fmt.Sprintf(" [history %q]", hist), c08Case{Registered: append([]string{}, hist...), Candidate: hist[0]})
						ok = false
					}
					if !ok {
						break
					}
				}
				l.States++
				l.Evals++
				l.Transitions++
				l.Traces++
				l.NonTrivial++
				v, bad, key := c08Step(m, tree, trie, mk(tail[ti]))
				if bad != "" {
					l.Class("mismatch")
					l.Violate("tree/"+key+"/sibling-insertion", bad+fmt.Sprintf(" [registered %q, candidate %q]", hist, tail[ti]), c08Case{Registered: append([]string{}, hist...), Candidate: tail[ti]})
					break
				}
				l.Class("candidate:" + v)
			}
		}
	})
}

// c08RoutesLists: method lists given to Routes in one string. An item that is no HTTP method (an empty item, two
// names run together by white space, a misspelling) makes the registration fail loudly; the others register
// every method they name.
// c08Spellings: the same route spelled with other spacing after ':' and ',' is the same route - registered
// after its twin it is refused as a duplicate (for the same method; another method takes it). Registered through the Flame in every order of every pair of spellings.
func c08Spellings(r *core.Run) {
	base := []string{"/u/{id: /[0-9]+/}/p", "/f/{p: **, capture: 2}/r", "/{a: /x+/, b: /y+/}/z/{c}", "/o/{q: /[a-z]+/}/?{t: /[0-9]+/}", "/m/{m: **}", "/v/{k: /a|b/}-{j: /c/}/w/{i}"}
	spell := func(t string, k int) string {
		switch k {
		case 1:
			return strings.NewReplacer(": ", ":", ", ", ",").Replace(t)
		case 2:
			return strings.NewReplacer(": ", ":   ", ", ", ",  ").Replace(t)
		case 3:
			return strings.NewReplacer(": ", ":", ", ", ",   ").Replace(t)
		}
		return t
	}
	l := core.NewLocal()
	r.Bounds["spellings"] = fmt.Sprintf("%d routes x every ordered pair of 4 spellings of the blanks after ':' and ','", len(base))
	for _, t := range base {
		for a := 0; a < 4; a++ {
			for b := 0; b < 4; b++ {
				if a == b {
					continue
				}
				ta, tb := spell(t, a), spell(t, b)
				if ta == tb {
					continue
				}
				l.Evals++
				l.Transitions += 2
				l.Traces++
				l.States++
				l.NonTrivial++
				f := flamego.NewWithLogger(io.Discard)
				reg := func(meth, text, tag string) (pv interface{}) {
					defer func() { pv = recover() }()
					f.Route(meth, text, []flamego.Handler{func(c flamego.Context) { c.ResponseWriter().WriteHeader(204) }})
					return nil
				}
				cs := c08Case{Registered: []string{ta}, RegMethods: []string{"GET"}, Candidate: tb, Method: "GET", Flame: true}
				if pv := reg("GET", ta, "first"); pv != nil {
					l.Violate("flame/rejected-but-wellformed/spelling", fmt.Sprintf("%q refused: %v", ta, pv), c08Case{Candidate: ta, Method: "GET", Flame: true})
					continue
				}
				if pv := reg("GET", tb, "second"); pv == nil {
					l.Class("mismatch")
					l.Violate("flame/accepted-but-must-reject/duplicate route/other-spelling", fmt.Sprintf("%q is accepted for GET although %q, the same route spelled with other blanks, is registered for GET", tb, ta), cs)
					continue
				}
				if pv := reg("POST", tb, "post"); pv != nil {
					l.Class("mismatch")
					l.Violate("flame/rejected-but-wellformed/spelling-other-method", fmt.Sprintf("%q refused for POST after %q was registered for GET only: %v", tb, ta, pv), cs)
					continue
				}
				l.Class("candidate:reject")
			}
		}
	}
	r.Merge(l)
}

// c08Leaking: regex segments whose bind expressions compile one by one but not as written side by side (a \Q
// left open by one is closed by the next). Whether such a route is refused or accepted is asserted neither way
// (the pinned tree accepted them, the repaired tree refuses them); what the statement fixes is that a route
// does not fail later, during a request: if it is accepted, requests around its texts are served without panic.
func c08Leaking(r *core.Run) {
	texts := []string{`/{x: /(a)\Q/}{y: /\Qb\E/}`, `/f/{a: /x\Q/}-{b: /\Q\Ey/}`, `/f/{a: /x\Q/}-{b: /\Q\Ey/}/t`, `/{a: /\Q(/}{b: /\E)/}`, `/g/{a: /[\Q]/}.{b: /[\E]/}`, `/{a: /x\Q/}`}
	probes := []string{"/f/x-y", "/f/x-y/t", "/a)(\\Qb", "/ab", "/f/x-\\Ey", "/x", "/()", "/g/].[", "/g/Q.E", "/f/x\\Q-\\Ey"}
	l := core.NewLocal()
	for _, t := range texts {
		for _, meth := range []string{"GET", "*"} {
			f := flamego.NewWithLogger(io.Discard)
			l.Evals++
			l.Transitions++
			l.Traces++
			l.States++
			l.NonTrivial++
			refused := func() (pv interface{}) {
				defer func() { pv = recover() }()
				f.Route(meth, t, []flamego.Handler{func(c flamego.Context) { c.ResponseWriter().WriteHeader(204) }})
				return nil
			}()
			if refused != nil {
				if msg := fmt.Sprint(refused); !strings.HasPrefix(msg, "unable to parse route") && !strings.HasPrefix(msg, "unable to add route") {
					l.Violate("flame/runtime-panic-at-registration/leaking-expression", fmt.Sprintf("registering %q died with %v instead of the documented registration panic", t, refused), c08Case{Candidate: t, Method: meth, Flame: true, RegMethods: []string{"leaking"}})
					continue
				}
				l.Class("candidate:reject")
				continue
			}
			bad := ""
			for _, pth := range probes {
				func() {
					defer func() {
						if pv := recover(); pv != nil && bad == "" {
							bad = fmt.Sprintf("%q was accepted at registration and serving GET %q then panicked: %v", t, pth, pv)
						}
					}()
					f.ServeHTTP(&c01Spy{hdr: http.Header{}}, newReq("GET", pth))
				}()
			}
			if bad != "" {
				l.Class("mismatch")
				l.Violate("flame/fails-later-during-a-request/leaking-expression", bad, c08Case{Candidate: t, Method: meth, Flame: true, RegMethods: []string{"leaking"}})
			} else {
				l.Class("candidate:accept")
			}
		}
	}
	r.Merge(l)
}

func c08RoutesLists(r *core.Run) {
	valid := map[string][]string{"GET": {"GET"}, "GET,POST": {"GET", "POST"}, "GET, POST": {"GET", "POST"}, " get ,post ": {"GET", "POST"}, "put,PATCH,delete": {"PUT", "PATCH", "DELETE"}}
	invalid := []string{"GET POST", "GET\tPOST", "GET,", ",GET", "GET,,POST", "GET, ,POST", ",", " ", "", "GETT", "GET,BREW", "GET;POST", "GET\nPOST"}
	l := core.NewLocal()
	try := func(list string) (f *flamego.Flame, pv interface{}) {
		f = flamego.NewWithLogger(io.Discard)
		defer func() { pv = recover() }()
		f.Routes("/x", list, func(c flamego.Context) { c.ResponseWriter().WriteHeader(204) })
		return f, nil
	}
	for list, methods := range valid {
		l.Evals++
		l.Transitions++
		l.Traces++
		f, pv := try(list)
		if pv != nil {
			l.Violate("flame/rejected-but-wellformed/routes-method-list", fmt.Sprintf("Routes(\"/x\", %q) refused: %v", list, pv), c08Case{Candidate: "/x", Method: list, Flame: true, RegMethods: []string{"routes-list"}})
			continue
		}
		for _, m := range c08KnownMethods {
			spy := &c01Spy{hdr: http.Header{}}
			f.ServeHTTP(spy, newReq(m, "/x"))
			named := false
			for _, x := range methods {
				named = named || x == m
			}
			if named != (spy.code == 204) {
				l.Violate("flame/routes-method-list-registers-other-methods", fmt.Sprintf("Routes(\"/x\", %q): %s /x answers %d", list, m, spy.code), c08Case{Candidate: "/x", Method: list, Flame: true, RegMethods: []string{"routes-list"}})
			}
		}
		l.Class("candidate:accept")
	}
	for _, list := range invalid {
		l.Evals++
		l.Transitions++
		l.Traces++
		l.NonTrivial++
		_, pv := try(list)
		if pv == nil {
			l.Class("mismatch")
			l.Violate("flame/accepted-but-must-reject/unknown HTTP method/routes-method-list", fmt.Sprintf("Routes(\"/x\", %q) is accepted although the list holds an item that is no HTTP method", list), c08Case{Candidate: "/x", Method: list, Flame: true, RegMethods: []string{"routes-list"}})
			continue
		}
		if msg := fmt.Sprint(pv); !strings.HasPrefix(msg, "unknown HTTP method") && !strings.HasPrefix(msg, "empty methods") {
			l.Violate("flame/runtime-panic-at-registration/routes-method-list", fmt.Sprintf("Routes(\"/x\", %q) died with %v instead of the documented registration panic", list, pv), c08Case{Candidate: "/x", Method: list, Flame: true, RegMethods: []string{"routes-list"}})
			continue
		}
		l.Class("candidate:reject")
	}
	r.Merge(l)
}

func c08Shape(r ref.Route) string {
	var parts []string
	for _, s := range r.Segs {
		k, _ := s.Kind()
		p := k.String()
		if len(s.Elems) == 0 {
			p = "empty"
		}
		if s.Optional {
			p = "?" + p
		}
		parts = append(parts, p)
	}
	return strings.Join(parts, "/")
}

func c08Run(r *core.Run) {
	p, err := route.NewParser()
	if err != nil {
		panic(err)
	}
	cat := c08Catalogue(p)
	r.Rule = "engine E over histories: 0..2 routes that register successfully followed by one candidate, all over a catalogue of well-formed corners, every ill-formed category of the statement, ungrammatical texts and unclassified shapes; plus every ordered triple of twelve deep routes that share long prefixes; oracle = reference validator over the forms already registered; accepted candidates must be reachable by a generated instance of each form (or lose only to a higher-priority route); non-trivial = history whose candidate verdict depends on what was registered before it (verdict differs from the candidate's verdict on an empty tree) or candidate ill-formed on its own"
	r.Assumptions = []string{"shapes outside the statement's categories ({a: literal}, match-all with neighbours) get no verdict and are counted", "a failed registration ends a history (what happens after a registration panic is not part of the property)"}
	r.SetBudget(70 * time.Second)
	if r.Thorough() {
		r.SetBudget(10 * time.Minute)
	}
	// also every C01 catalogue route up to 2 segments as candidates/prefixes in thorough mode
	if r.Thorough() {
		seen := map[string]bool{}
		for _, e := range cat {
			seen[e.Text] = true
		}
		for _, t := range c01CatalogueTexts(2) {
			if seen[t] {
				continue
			}
			seen[t] = true
			e := c08Entry{Text: t}
			e.Ref, e.Gram, e.Determined = ref.Parse(t)
			if ast, err := p.Parse(t); err == nil {
				e.AST = ast
			}
			cat = append(cat, e)
		}
	}
	baseN := len(c08Catalogue(p)) // entries beyond this index come from the C01 shape catalogue (thorough only)
	n := len(cat)
	r.Bounds["catalogue"] = n
	r.Bounds["history"] = "0..2 registered routes + 1 candidate (all ordered combinations)"
	// verdict of each candidate on an empty tree (for the non-trivial rule)
	alone := make([]string, n)
	{
		m := ref.NewMatcher()
		for i, e := range cat {
			v, _, _ := c08Step(m, route.NewTree(), ref.NewTrie(), e)
			alone[i] = v
		}
	}
	// only routes that register on an empty tree can be part of a history prefix
	var pre []int
	for i := range cat {
		if alone[i] == "accept" {
			pre = append(pre, i)
		}
	}
	r.Bounds["prefix_capable_routes"] = len(pre)
	np := len(pre) + 1 // index 0 = absent
	nj := n + 1
	r.Parallel(func(w, nw int, l *core.Local) {
		m := ref.NewMatcher()
		for c := w; c < np*nj*n; c += nw {
			if (c/nw)%16 == 0 && r.Expired() {
				return
			}
			k := c % n
			jj := (c / n) % nj
			ii := c / (n * nj)
			if ii > 0 && jj == 0 {
				continue // canonical: absent slots lead
			}
			// the first slot holds a route that registers; the second slot holds ANY catalogue entry: when it
			// is rejected the history goes on (an application may recover from the registration panic), and
			// the rejected registration must leave nothing behind
			i, j := -1, -1
			if ii > 0 {
				i = pre[ii-1]
			}
			if jj > 0 {
				j = jj - 1
			}
			if !r.Thorough() && ii > 0 && (ii%3 != 0) {
				continue
			}
			if ii > 0 && (i >= baseN || j >= baseN) {
				continue // two-route prefixes are drawn from the hand-written catalogue only
			}
			if jj > 0 && j >= baseN && alone[j] != "accept" {
				continue
			}
			tree, trie := route.NewTree(), ref.NewTrie()
			var hist []string
			ok := true
			for _, x := range []int{i, j} {
				if x < 0 {
					continue
				}
				v, bad, _ := c08Step(m, tree, trie, cat[x])
				if bad != "" || v == "skip" {
					ok = false
					break
				}
				if v == "reject" {
					if cat[x].AST == nil {
						ok = false // ungrammatical text never reaches the tree: nothing to leave behind
						break
					}
					hist = append(hist, cat[x].Text+" (rejected)")
					continue
				}
				hist = append(hist, cat[x].Text)
			}
			if !ok {
				continue // histories consist of successful registrations; the failing prefix is enumerated as its own history
			}
			l.States++
			l.Evals++
			l.Transitions++
			l.Traces++
			v, bad, key := c08Step(m, tree, trie, cat[k])
			if v != alone[k] || alone[k] == "reject" {
				l.NonTrivial++
			}
			l.Class("candidate:" + v)
			if bad != "" {
				l.Violate("tree/"+key, bad+fmt.Sprintf(" [registered %q, candidate %q]", hist, cat[k].Text), c08Case{Registered: hist, Candidate: cat[k].Text})
			} else if c%4999 == 0 {
				l.Sample(map[string]interface{}{"registered": hist, "candidate": cat[k].Text, "verdict": v})
			}
		}
	})

	c08Deep(r, p)
	c08Siblings(r, p)
	c08RoutesLists(r)
	c08Spellings(r)
	c08Leaking(r)

	// flame level: methods, panics
	methods := []string{"GET", "POST", "PUT", "DELETE", "PATCH", "OPTIONS", "HEAD", "CONNECT", "TRACE", "*", "get", "BREW", "", "GET,POST", " GET"}
	r.Bounds["flame_methods"] = methods
	r.Parallel(func(w, nw int, l *core.Local) {
		for c := w; c < np*n; c += nw {
			if (c/nw)%8 == 0 && r.Expired() {
				return
			}
			k := c % n
			j := -1
			if jj := c / n; jj > 0 {
				j = pre[jj-1]
				if !r.Thorough() && jj%2 == 0 {
					continue
				}
			}
			for mi, meth := range methods {
				for _, firstMeth := range []string{"GET", "*"} {
					if j < 0 && firstMeth == "*" {
						continue
					}
					if !r.Thorough() && mi >= 2 && mi <= 8 && (c+mi)%5 != 0 {
						continue
					}
					var regs, regm []string
					if j >= 0 {
						regs, regm = []string{cat[j].Text}, []string{firstMeth}
					}
					bad, key, verdict := c08FlameEval(cat, regs, regm, cat[k].Text, meth)
					if verdict == "" {
						continue
					}
					l.States++
					l.Evals++
					l.Transitions++
					l.Traces++
					l.Class("flame:" + verdict)
					if verdict == "reject" {
						l.NonTrivial++
					}
					if bad != "" {
						l.Violate("flame/"+key, bad+fmt.Sprintf(" [registered %q via %v, candidate %s %q]", regs, regm, meth, cat[k].Text),
							c08Case{Registered: regs, RegMethods: regm, Candidate: cat[k].Text, Method: meth, Flame: true})
					}
				}
			}
		}
	})
}

var c08KnownMethods = []string{"GET", "POST", "PUT", "DELETE", "PATCH", "OPTIONS", "HEAD", "CONNECT", "TRACE"}

func c08MethodsOf(meth string) []string {
	up := strings.ToUpper(meth)
	if up == "*" {
		return c08KnownMethods
	}
	for _, k := range c08KnownMethods {
		if k == up {
			return []string{k}
		}
	}
	return nil
}

// c08FlameEval: registers regs on a fresh Flame (must all succeed, else verdict ""), then the
// candidate with the method; compares panic/no panic with the reference.
func c08FlameEval(cat []c08Entry, regs, regm []string, cand, meth string) (bad, key, verdict string) {
	find := func(t string) *c08Entry {
		for i := range cat {
			if cat[i].Text == t {
				return &cat[i]
			}
		}
		p, _ := route.NewParser()
		e := c08Entry{Text: t}
		e.Ref, e.Gram, e.Determined = ref.Parse(t)
		if ast, err := p.Parse(t); err == nil {
			e.AST = ast
		}
		return &e
	}
	f := flamego.NewWithLogger(io.Discard)
	tries := map[string]*ref.Trie{}
	for _, k := range c08KnownMethods {
		tries[k] = ref.NewTrie()
	}
	h := func(c flamego.Context) {}
	reg := func(meth, text string) (pv interface{}) {
		defer func() { pv = recover() }()
		f.Route(meth, text, []flamego.Handler{h})
		return nil
	}
	for i, t := range regs {
		e := find(t)
		if !e.Determined || !e.Gram || e.AST == nil {
			return "", "", ""
		}
		for _, k := range c08MethodsOf(regm[i]) {
			reason, other := tries[k].Validate(e.Ref)
			if reason != "" || other {
				return "", "", ""
			}
		}
		if reg(regm[i], t) != nil {
			return "", "", ""
		}
		for _, k := range c08MethodsOf(regm[i]) {
			tries[k].Add(e.Ref)
		}
	}
	e := find(cand)
	if !e.Determined {
		return "", "", ""
	}
	want := "accept"
	why := ""
	ms := c08MethodsOf(meth)
	switch {
	case len(ms) == 0:
		want, why = "reject", "unknown HTTP method"
	case !e.Gram:
		want, why = "reject", "outside the grammar"
	default:
		if e.AST == nil {
			return "", "", ""
		}
		for _, k := range ms {
			reason, other := tries[k].Validate(e.Ref)
			if other {
				return "", "", ""
			}
			if reason != "" {
				want, why = "reject", reason
				break
			}
		}
	}
	pan := reg(meth, cand)
	if pan != nil {
		msg := fmt.Sprint(pan)
		documented := strings.HasPrefix(msg, "unknown HTTP method") || strings.HasPrefix(msg, "unable to parse route") || strings.HasPrefix(msg, "unable to add route")
		if !documented {
			return fmt.Sprintf("registration died with a runtime panic instead of the documented registration panic: %v (reference verdict: %s %s)", pan, want, why), "runtime-panic-at-registration/" + map[bool]string{true: "wellformed", false: "illformed"}[want == "accept"], want
		}
		if want == "accept" {
			return "rejected although well-formed and colliding with nothing: " + msg, "rejected-but-wellformed/" + c08Shape(e.Ref), want
		}
		// a refusal is a function of what is registered and of the attempt: the same attempt again is refused
		// again, and a text outside the grammar for every other method as well
		again := []string{meth}
		if !e.Gram && len(ms) > 0 {
			again = append(again, "POST", "*", "HEAD")
		}
		for _, m2 := range again {
			if reg(m2, cand) == nil {
				return fmt.Sprintf("refused at the first attempt (%s) but accepted when attempted again for method %q", why, m2), "accepted-but-must-reject/second-attempt/" + c08Category(why), want
			}
		}
		return "", "", want
	}
	if want == "reject" {
		return "accepted although it must be rejected: " + why, "accepted-but-must-reject/" + c08Category(why), want
	}
	return "", "", want
}

func c08Replay(raw json.RawMessage) (bool, string) {
	var c c08Case
	if err := json.Unmarshal(raw, &c); err != nil {
		return false, err.Error()
	}
	p, _ := route.NewParser()
	mk := func(t string) c08Entry {
		e := c08Entry{Text: t}
		e.Ref, e.Gram, e.Determined = ref.Parse(t)
		if ast, err := p.Parse(t); err == nil {
			e.AST = ast
		}
		return e
	}
	if c.Flame && len(c.RegMethods) == 1 && c.RegMethods[0] == "routes-list" {
		sub := core.NewRun("C08", "quick")
		c08RoutesLists(sub)
		if sub.HasViolations() {
			return true, "a method list given to Routes is not handled as the statement says (the whole list phase was re-run)"
		}
		return false, ""
	}
	if c.Flame && len(c.RegMethods) == 1 && c.RegMethods[0] == "leaking" {
		sub := core.NewRun("C08", "quick")
		c08Leaking(sub)
		if sub.HasViolations() {
			return true, "a regex segment whose expressions leak into each other fails during a request (the whole phase was re-run)"
		}
		return false, ""
	}
	if c.Flame && len(c.Registered) == 1 && len(c.RegMethods) == 1 && c.Registered[0] != c.Candidate && strings.NewReplacer(" ", "").Replace(c.Registered[0]) == strings.NewReplacer(" ", "").Replace(c.Candidate) {
		sub := core.NewRun("C08", "quick")
		c08Spellings(sub)
		if sub.HasViolations() {
			return true, "two spellings of one route are not treated as one route (the whole phase was re-run)"
		}
		return false, ""
	}
	if c.Flame {
		bad, _, _ := c08FlameEval(nil, c.Registered, c.RegMethods, c.Candidate, c.Method)
		return bad != "", bad
	}
	m := ref.NewMatcher()
	tree, trie := route.NewTree(), ref.NewTrie()
	for _, t := range c.Registered {
		rejected := strings.HasSuffix(t, " (rejected)")
		v, bad, _ := c08Step(m, tree, trie, mk(strings.TrimSuffix(t, " (rejected)")))
		if bad != "" || (v == "accept") == rejected {
			return false, "history prefix does not behave as recorded"
		}
	}
	if bad, _ := c08StillReachable(m, tree, trie); bad != "" {
		return true, bad
	}
	_, bad, _ := c08Step(m, tree, trie, mk(c.Candidate))
	return bad != "", bad
}

func init() {
	core.Register(&core.Check{ID: "C08", Run: c08Run, Replay: c08Replay})
}
