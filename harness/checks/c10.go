package checks

import (
	"encoding/json"
	"fmt"
	"io"
	"net/http"
	"net/url"
	"regexp"
	"strings"
	"sync"
	"time"

	"github.com/flamego/flamego"
	"github.com/flamego/flamego/internal/route"
	"github.com/flamego/flamego/verifharness/core"
)

// ---- C10: the static shortcut is unobservable (engine B over histories) ----

var c10Routes = []string{"/s", "/s/", "/s/t", "/s/?t", "/{p}", "/s/{p}", "/{m: **}", "/q/?r", "/", "/{p}/t", "/{m: **}/t", "/s%2Ft"}
var c10RegMethods = []string{"GET", "POST", "*", "GET,POST"}
var c10HdrSets = [][]string{{}, {"X-K", "v"}}
var c10Paths = []string{"/s", "//s", "/s/", "/s//", "/s/t", "/s/?t", "/q/?r", "/q", "/q/r", "/%73", "s", "", "/", "/s/t/", "/q/", "/{p}/t", "/{p}", "/s/{p}", "/{m: **}", "/x/t", "/{m: **}/t", "/x/y/t", "/S", "/s/T", "/s/u", "/s%2Ft", "/s%252Ft"}

// c10ProbeMethods: two registered methods, a lower-case spelling of one (an unknown method for the router, as
// any other token) and an unknown token
var c10ProbeMethods = []string{"GET", "POST", "get", "BREW"}

var c10ReqHdrs = []map[string]string{{}, {"X-K": "v"}}

const c10MaxRegs = 4

type c10Op struct {
	Kind   string   `json:"op"`
	Method string   `json:"method,omitempty"`
	Route  string   `json:"route,omitempty"`
	Target int      `json:"registration_index,omitempty"`
	Pairs  []string `json:"header_pairs,omitempty"`
	// Refused: a registration that is expected to be refused (by the router and by the plain tree alike): the
	// history goes on with everything as it was
	Refused bool `json:"refused_attempt,omitempty"`
}

// c10RefusedHistories: static routes of two to four segments (and an optional and a dynamic neighbour), then an
// attempt that is refused somewhere below the first segment, optionally Headers() on the first route, then the
// probe set (the route itself, spelled plainly and with doubled slashes).
func c10RefusedHistories(r *core.Run) {
	firsts := []string{"/s/t/u", "/s/t", "/s/t/u/w", "/s/t/?u", "/s/{p}/u"}
	attempts := []string{"/s/t/u", "/s/{x}/{x}", "/s/t/{x}/{x}", "/s/{m: **}/{n: **}/z", "/s/t/u/{y}/{y}", "/s/?t/u", "/s/t"}
	paths := []string{"/s/t/u", "//s/t/u", "/s/t", "/s//t", "/s/t/u/w", "/s/t/u//w", "/s/t/", "/s/x/u", "/s", "/s/t/u/", "//s", "//s/t", "/q", "//q", "/q/r", "//q/r", "/", "//", ""}
	type job struct{ ops []c10Op }
	var jobs [][]c10Op
	for _, f1 := range firsts {
		for _, m := range []string{"GET", "*"} {
			for _, a := range attempts {
				for _, second := range []string{"", "/q/?r", "/{p}"} {
					for _, hdr := range []bool{false, true} {
						ops := []c10Op{{Kind: "reg", Method: m, Route: f1}}
						if second != "" {
							ops = append(ops, c10Op{Kind: "reg", Method: "GET", Route: second})
						}
						ops = append(ops, c10Op{Kind: "reg", Method: "GET", Route: a, Refused: true})
						if hdr {
							ops = append(ops, c10Op{Kind: "headers", Target: 0, Pairs: []string{"X-K", "v"}})
						}
						jobs = append(jobs, ops)
					}
				}
			}
		}
	}
	// a registration for all methods that is refused for one of them only (the route is taken for POST): what it
	// had registered for the methods before POST stays registered - in the trees and in the shortcut table alike
	for _, f1 := range []string{"/s", "/s/t", "/s/t/u", "/s/?t", "/q/?r"} {
		for _, hdr := range []bool{false, true} {
			ops := []c10Op{{Kind: "reg", Method: "POST", Route: f1}, {Kind: "reg", Method: "*", Route: f1, Refused: true}}
			if hdr {
				ops = append(ops, c10Op{Kind: "headers", Target: 0, Pairs: []string{"X-K", "v"}})
			}
			jobs = append(jobs, ops, append(append([]c10Op{}, ops...), c10Op{Kind: "reg", Method: "GET", Route: "/{p}"}))
		}
	}
	// optional routes whose short or long forms collide on one literal with each other and with plain routes
	{
		opt := []string{"/?s", "/s/?t", "/s/t/?u", "/s", "/s/t", "/?q", "/q/?r"}
		for _, a := range opt {
			for _, b := range opt {
				if a == b {
					continue
				}
				for _, m := range []string{"GET", "*"} {
					jobs = append(jobs, []c10Op{{Kind: "reg", Method: m, Route: a}, {Kind: "reg", Method: "GET", Route: b}},
						[]c10Op{{Kind: "reg", Method: m, Route: a}, {Kind: "reg", Method: "GET", Route: b}, {Kind: "headers", Target: 0, Pairs: []string{"X-K", "v"}}})
				}
			}
		}
	}
	r.Bounds["histories_with_a_refused_attempt"] = fmt.Sprintf("%d histories: %d first routes x {GET, all methods} x %d attempts refused below the first segment x {no, optional, dynamic} second route x Headers() afterwards or not; %d probe paths", len(jobs), len(firsts), len(attempts), len(paths))
	r.Parallel(func(wk, nw int, l *core.Local) {
		p, _ := route.NewParser()
		for ji := wk; ji < len(jobs); ji += nw {
			w, ok, bad := c10Apply(p, jobs[ji])
			if bad != "" {
				l.Violate("registration-verdict", bad, c10Case{Ops: jobs[ji]})
				continue
			}
			if !ok {
				l.Extra["dedicated_histories_not_applicable(an attempt is accepted that was expected refused, or the other way round)"]++
				continue
			}
			l.States++
			l.Transitions += int64(len(jobs[ji]))
			l.Traces++
			for _, method := range []string{"GET", "POST"} {
				for _, path := range paths {
					for _, hdr := range c10ReqHdrs {
						l.Evals++
						l.NonTrivial++
						if bad, outcome := c10One(w, method, path, hdr); bad != "" {
							l.Class("mismatch")
							l.Violate("shortcut-vs-tree/"+outcome+"/dedicated-history", bad+fmt.Sprintf(" [history %v, refused attempts %v, request %s %q %v]", w.desc, w.refused, method, path, hdr), c10Case{Ops: jobs[ji], Method: method, Path: path, Headers: hdr})
						} else {
							l.Class("dedicated-history")
						}
					}
				}
			}
		}
	})
}

func c10Ops() []c10Op {
	var ops []c10Op
	for _, m := range c10RegMethods {
		for _, r := range c10Routes {
			ops = append(ops, c10Op{Kind: "reg", Method: m, Route: r})
		}
	}
	for i := 0; i < 3; i++ {
		for _, h := range c10HdrSets {
			ops = append(ops, c10Op{Kind: "headers", Target: i, Pairs: h})
		}
	}
	return ops
}

type c10World struct {
	f       *flamego.Flame
	handles []*flamego.Route
	trees   map[string]route.Tree // the same history through the plain tree API, no shortcut
	leaves  [][]route.Leaf        // per registration: the leaf of every method it covers
	desc    []string
	refused []string // attempts that were refused along the way
	hitText string
	hitPar  map[string]string
	ran     int
}

func c10Apply(p *route.Parser, ops []c10Op) (w *c10World, ok bool, bad string) {
	return c10ApplyI(p, ops, false)
}

// c10ApplyI: with interleave, the whole probe set is served after every operation (requests must
// not change routing state: the final answers have to be the same as without them).
func c10ApplyI(p *route.Parser, ops []c10Op, interleave bool) (w *c10World, ok bool, bad string) {
	w = &c10World{f: flamego.NewWithLogger(io.Discard), trees: map[string]route.Tree{}}
	for _, m := range c08KnownMethods {
		w.trees[m] = route.NewTree()
	}
	for oi, op := range ops {
		if interleave && oi > 0 {
			for _, method := range c10ProbeMethods {
				for _, path := range c10Paths {
					for _, hdr := range c10ReqHdrs {
						c10One(w, method, path, hdr)
					}
				}
			}
		}
		switch op.Kind {
		case "reg":
			if len(w.handles) >= c10MaxRegs {
				return w, false, ""
			}
			ast, err := p.Parse(op.Route)
			if err != nil {
				return w, false, ""
			}
			text := ast.String()
			h := func(c flamego.Context) {
				w.ran++
				w.hitText = text
				w.hitPar = map[string]string{}
				for k, v := range c.Params() {
					w.hitPar[k] = v
				}
				c.ResponseWriter().WriteHeader(200)
			}
			var handle *flamego.Route
			pan := func() (pv interface{}) {
				defer func() { pv = recover() }()
				if strings.Contains(op.Method, ",") {
					handle = w.f.Routes(op.Route, op.Method, h)
				} else {
					handle = w.f.Route(op.Method, op.Route, []flamego.Handler{h})
				}
				return nil
			}()
			ast2, _ := p.Parse(op.Route)
			var regLeaves []route.Leaf
			var terr error
			var tpan interface{}
			regMethods := c08MethodsOf(op.Method)
			if strings.Contains(op.Method, ",") {
				regMethods = strings.Split(op.Method, ",")
			}
			for _, m := range regMethods {
				var leaf route.Leaf
				leaf, terr, tpan = safeAddRoute(w.trees[m], ast2)
				if terr != nil || tpan != nil {
					break
				}
				regLeaves = append(regLeaves, leaf)
			}
			if (pan != nil) != (terr != nil || tpan != nil) {
				return w, false, fmt.Sprintf("registration verdict differs between Flame (%v) and the plain tree (%v %v)", pan, terr, tpan)
			}
			if pan != nil && op.Refused {
				// an attempt both sides refuse: the application recovers and goes on; nothing has changed
				w.refused = append(w.refused, op.Method+" "+text)
				continue
			}
			if pan != nil || op.Refused {
				return w, false, ""
			}
			w.handles = append(w.handles, handle)
			w.leaves = append(w.leaves, regLeaves)
			w.desc = append(w.desc, op.Method+" "+text)
		case "headers":
			if op.Target >= len(w.handles) {
				return w, false, ""
			}
			w.handles[op.Target].Headers(op.Pairs...)
			ms := map[string]*regexp.Regexp{}
			for i := 0; i+1 < len(op.Pairs); i += 2 {
				ms[op.Pairs[i]] = regexp.MustCompile(op.Pairs[i+1])
			}
			for _, lf := range w.leaves[op.Target] {
				lf.SetHeaderMatcher(route.NewHeaderMatcher(ms))
			}
			w.desc[op.Target] = strings.Split(w.desc[op.Target], " |")[0] + fmt.Sprintf(" |%v", op.Pairs)
		}
	}
	return w, true, ""
}

type c10Case struct {
	Ops         []c10Op           `json:"history"`
	Method      string            `json:"request_method"`
	Path        string            `json:"path"`
	Headers     map[string]string `json:"request_headers"`
	Interleaved bool              `json:"probe_set_served_after_every_operation,omitempty"`
}

// c10One serves path as given (URL.Path set directly) and, when path also reads as a request line with
// percent-escapes in it, the request a server builds from that line (decoded path plus the spelling as sent).
func c10One(w *c10World, method, path string, hdr map[string]string) (bad, outcome string) {
	bad, outcome = c10OneReq(w, method, path, newReq(method, path), hdr)
	if bad != "" || !strings.Contains(path, "%") || !strings.HasPrefix(path, "/") {
		return bad, outcome
	}
	u, err := url.ParseRequestURI(path)
	if err != nil || u.RawQuery != "" || u.ForceQuery {
		return bad, outcome
	}
	req := newReq(method, u.Path)
	req.URL, req.RequestURI = u, path
	if b, _ := c10OneReq(w, method, u.Path, req, hdr); b != "" {
		return "as a request line: " + b, "differs"
	}
	return bad, outcome
}

func c10OneReq(w *c10World, method, path string, req *http.Request, hdr map[string]string) (bad, outcome string) {
	for k, v := range hdr {
		req.Header[http.CanonicalHeaderKey(k)] = []string{v}
	}
	var outs [2]string
	for rep := 0; rep < 2; rep++ {
		w.ran, w.hitText, w.hitPar = 0, "", nil
		spy := &c01Spy{hdr: http.Header{}}
		var pan interface{}
		func() {
			defer func() { pan = recover() }()
			w.f.ServeHTTP(spy, req)
		}()
		if pan != nil {
			return fmt.Sprintf("ServeHTTP panicked: %v", pan), "panic"
		}
		if w.ran > 1 {
			return fmt.Sprintf("%d route handlers ran for one request", w.ran), "multi"
		}
		if w.ran == 0 {
			outs[rep] = fmt.Sprintf("notfound(status %d)", spy.code)
		} else {
			outs[rep] = "route " + w.hitText + " {" + fmtParams(w.hitPar) + "}"
		}
	}
	if outs[0] != outs[1] {
		return fmt.Sprintf("same request served twice gives %q then %q", outs[0], outs[1]), "unstable"
	}
	want := "notfound(status 404)"
	if t, ok := w.trees[method]; ok {
		leaf, params, found, pan := safeMatch(t, path, req.Header)
		if pan != nil {
			return fmt.Sprintf("Tree.Match panicked: %v", pan), "panic"
		}
		if found {
			pm := map[string]string{"route": leaf.Route()}
			for k, v := range params {
				pm[k] = v
			}
			want = "route " + leaf.Route() + " {" + fmtParams(pm) + "}"
		}
	}
	if outs[0] != want {
		return fmt.Sprintf("Flame: %s; full tree matching of the same history: %s", outs[0], want), "differs"
	}
	return "", outs[0]
}

func c10Run(r *core.Run) {
	ops := c10Ops()
	depth := 3
	r.SetBudget(90 * time.Second)
	if r.Thorough() {
		r.SetBudget(14 * time.Minute)
	}
	r.Rule = fmt.Sprintf("engine B: BFS (depth 3; thorough: every history with the probe set also served between the operations, plus depth 4 over a reduced alphabet of 8 routes x {GET, POST, all methods}) over histories of Reg(method list,route) and Headers(i,set) applied to a fresh Flame AND, operation by operation, to plain route trees (route.AddRoute / SetHeaderMatcher, no shortcut); after every transition (and, in a second world, between the operations) every probe (2 methods+1 unknown x %d paths x %d header sets, each served twice)", len(c10Paths), len(c10ReqHdrs)) + " must give the same chosen route, parameters or not-found on both; plus histories with an attempt that both sides refuse below the first segment of a registered static route; non-trivial = probe on a state that contains a fully static route (so the shortcut table is populated or was evicted)"
	r.Bounds["depth"] = depth
	r.Bounds["ops"] = len(ops)
	r.Bounds["max_registrations"] = c10MaxRegs
	r.Bounds["routes"] = c10Routes
	r.Bounds["paths"] = c10Paths
	r.Assumptions = []string{"the oracle is the implementation's own full tree matching (that is what the statement compares with); correctness of tree matching itself is C01/C02/C09"}
	parsers := sync.Pool{New: func() interface{} { p, _ := route.NewParser(); return p }}
	mkStep := func(ops []c10Op, depth int) func(hist []int, l *core.Local) (string, bool) {
		return func(hist []int, l *core.Local) (string, bool) {
			hops := make([]c10Op, len(hist))
			for i, h := range hist {
				hops[i] = ops[h]
			}
			p := parsers.Get().(*route.Parser)
			defer parsers.Put(p)
			w, ok, bad := c10Apply(p, hops)
			if bad != "" {
				l.Violate("registration-verdict-differs", bad, c10Case{Ops: hops})
				return "", false
			}
			if !ok {
				return "", false
			}
			hasStatic := false
			for _, d := range w.desc {
				if !strings.ContainsAny(strings.Split(d, " |")[0], "{") {
					hasStatic = true
				}
			}
			for _, method := range c10ProbeMethods {
				for _, path := range c10Paths {
					for _, hdr := range c10ReqHdrs {
						l.Evals++
						if hasStatic {
							l.NonTrivial++
						}
						bad, outcome := c10One(w, method, path, hdr)
						if bad != "" {
							l.Class("mismatch")
							l.Violate("shortcut-vs-tree/"+outcome, bad+fmt.Sprintf(" [history %v, request %s %q %v]", w.desc, method, path, hdr), c10Case{Ops: hops, Method: method, Path: path, Headers: hdr})
							continue
						}
						if strings.HasPrefix(outcome, "notfound") {
							l.Class("notfound")
						} else if strings.Contains(outcome, "{route=") && !strings.Contains(outcome, "\" ") {
							l.Class("served:no-binds")
						} else {
							l.Class("served:with-binds")
						}
					}
				}
			}
			if len(hist) >= 2 && (r.Thorough() || (hist[0]+hist[len(hist)-1])%4 == 0) {
				// the same history with the probe set served after every operation
				wi, oki, _ := c10ApplyI(p, hops, true)
				if oki {
					for _, method := range c10ProbeMethods {
						for _, path := range c10Paths {
							for _, hdr := range c10ReqHdrs {
								l.Evals++
								_, o1 := c10One(w, method, path, hdr)
								bad2, o2 := c10One(wi, method, path, hdr)
								if bad2 != "" || o1 != o2 {
									l.Violate("requests-change-routing-state", fmt.Sprintf("with the probe set served after every operation the request %s %q %v is answered %q (%s), without: %q [history %v]", method, path, hdr, o2, bad2, o1, w.desc),
										c10Case{Ops: hops, Method: method, Path: path, Headers: hdr, Interleaved: true})
								}
							}
						}
					}
				}
			}
			if len(hist) == depth && hist[0]%5 == 0 {
				l.Sample(w.desc)
			}
			return strings.Join(w.desc, ";"), true
		}
	}
	// the dedicated histories first (a second of work: the search below may use up the budget)
	c10RefusedHistories(r)
	b := &core.BFS{NumOps: len(ops), MaxDepth: depth, Step: mkStep(ops, depth), Run: r, Dedup: true}
	s, t, d := b.Search()
	loc := core.NewLocal()
	loc.States, loc.Transitions = s, t
	r.Notes["depth_completed"] = d
	if d < depth {
		r.NotExhaustive("internal deadline")
	}
	if r.Thorough() {
		// one level deeper over a reduced alphabet (the shapes the shortcut logic distinguishes: static,
		// optional-static, shadowing placeholder and match-all, static below a static, root; one or all methods)
		var ops4 []c10Op
		for _, m := range []string{"GET", "POST", "*"} {
			for _, rt := range []string{"/s", "/s/", "/s/?t", "/{p}", "/{m: **}", "/s/t", "/", "/{m: **}/t", "/s/u"} {
				ops4 = append(ops4, c10Op{Kind: "reg", Method: m, Route: rt})
			}
		}
		for i := 0; i < 3; i++ {
			for _, h := range c10HdrSets {
				ops4 = append(ops4, c10Op{Kind: "headers", Target: i, Pairs: h})
			}
		}
		r.Bounds["depth_4_reduced_ops"] = len(ops4)
		b4 := &core.BFS{NumOps: len(ops4), MaxDepth: 4, Step: mkStep(ops4, 4), Run: r, Dedup: true}
		s4, t4, d4 := b4.Search()
		loc.States += s4
		loc.Transitions += t4
		r.Notes["depth_completed_reduced_alphabet"] = d4
		if d4 < 4 {
			r.NotExhaustive("internal deadline (depth 4 over the reduced alphabet)")
		}
	}
	r.Merge(loc)
}

func c10Replay(raw json.RawMessage) (bool, string) {
	var c c10Case
	if err := json.Unmarshal(raw, &c); err != nil {
		return false, err.Error()
	}
	p, _ := route.NewParser()
	w, ok, bad := c10ApplyI(p, c.Ops, c.Interleaved)
	if bad != "" {
		return true, bad
	}
	if !ok {
		return false, "history not executable as recorded"
	}
	if c.Interleaved {
		w0, _, _ := c10Apply(p, c.Ops)
		_, o0 := c10One(w0, c.Method, c.Path, c.Headers)
		b1, o1 := c10One(w, c.Method, c.Path, c.Headers)
		if b1 != "" || o0 != o1 {
			return true, fmt.Sprintf("interleaved probes change the answer: %q vs %q %s", o1, o0, b1)
		}
		return false, ""
	}
	b, _ := c10One(w, c.Method, c.Path, c.Headers)
	return b != "", b
}

func init() {
	core.Register(&core.Check{ID: "C10", Run: c10Run, Replay: c10Replay})
}
