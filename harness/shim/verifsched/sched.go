//go:build verifsched

// Package verifsched is the controlled cooperative scheduler of engine S. It is injected into the
// flamego module by `go build -overlay` as github.com/flamego/flamego/internal/verifsched.
//
// One managed thread runs at a time. The hand-off is a plain variable written and spun on only
// inside //go:norace functions, so the race detector sees exactly the synchronisation the program
// under test performs (through the real primitives the shims delegate to) and nothing of ours.
package verifsched

import (
	"fmt"
	"runtime"
	"sync"
)

const MaxThreads = 8

type tstate uint8

const (
	tNotStarted tstate = iota
	tRunnable
	tBlocked
	tFinished
)

// Choice is one recorded scheduling decision (only points with at least two enabled threads).
type Choice struct {
	Idx         int  // index chosen in the canonical enabled list
	Enabled     int  // number of enabled threads
	SelfEnabled bool // the running thread could have continued (a non-zero Idx is a preemption)
	Thread      int  // thread that was chosen
}

type abortSentinel struct{}

var (
	active    bool
	aborted   bool
	cur       = -1
	nThreads  int
	st        [MaxThreads]tstate
	blockedOn [MaxThreads]interface{}
	prefix    []int
	trace     []Choice
	points    int
	deadlock  bool
	diverged  string
	escaped   [MaxThreads]interface{}
	finished  int
)

// Active reports whether a controlled execution is in progress.
//
//go:norace
func Active() bool { return active }

// Current returns the id of the managed thread that is running (ground truth for "own request").
//
//go:norace
func Current() int { return cur }

//go:norace
func pick(me int, meRunnable bool) int {
	var enabled [MaxThreads]int
	n := 0
	if meRunnable {
		enabled[n] = me
		n++
	}
	for t := 0; t < nThreads; t++ {
		if t != me && st[t] == tRunnable {
			enabled[n] = t
			n++
		}
	}
	if n == 0 {
		return -1
	}
	if n == 1 {
		return enabled[0]
	}
	idx := 0
	if len(trace) < len(prefix) {
		idx = prefix[len(trace)]
		if idx < 0 || idx >= n {
			diverged = fmt.Sprintf("replayed choice %d at decision %d is out of range (%d enabled): the execution is not a function of the schedule", idx, len(trace), n)
			idx = 0
		}
	}
	trace = append(trace, Choice{Idx: idx, Enabled: n, SelfEnabled: meRunnable, Thread: enabled[idx]})
	return enabled[idx]
}

//go:norace
func waitTurn(me int) {
	for cur != me {
		if aborted {
			panic(abortSentinel{})
		}
		runtime.Gosched()
	}
	if aborted {
		panic(abortSentinel{})
	}
}

// Point is a scheduling point: the scheduler may switch to another enabled thread here.
//
//go:norace
func Point() {
	if !active {
		return
	}
	points++
	me := cur
	nxt := pick(me, true)
	if nxt != me {
		cur = nxt
		waitTurn(me)
	}
}

// BlockOn marks the running thread as waiting for obj and runs another thread; it returns once
// the thread has been released (Release(obj)) and scheduled again. The caller re-checks its
// condition in a loop.
//
//go:norace
func BlockOn(obj interface{}) {
	if !active {
		runtime.Gosched()
		return
	}
	me := cur
	st[me] = tBlocked
	blockedOn[me] = obj
	nxt := pick(me, false)
	if nxt < 0 {
		deadlock = true
		abort()
		panic(abortSentinel{})
	}
	cur = nxt
	waitTurn(me)
}

// Release makes every thread that is blocked on obj runnable again.
//
//go:norace
func Release(obj interface{}) {
	if !active {
		return
	}
	for t := 0; t < nThreads; t++ {
		if st[t] == tBlocked && blockedOn[t] == obj {
			st[t] = tRunnable
			blockedOn[t] = nil
		}
	}
}

//go:norace
func abort() {
	aborted = true
	cur = -2
}

//go:norace
func threadEnd(id int, pv interface{}) {
	if _, isAbort := pv.(abortSentinel); isAbort {
		pv = nil
	} else if pv != nil {
		escaped[id] = pv
	}
	st[id] = tFinished
	finished++
	if finished == nThreads {
		active = false
		cur = -1
		return
	}
	if aborted {
		return
	}
	nxt := pick(id, false)
	if nxt < 0 {
		deadlock = true
		abort()
		return
	}
	cur = nxt
}

// threadMain: the (real) WaitGroup gives the caller of Run a genuine happens-before edge from the
// end of every thread, so that it may read what the threads recorded; the hand-off between threads
// stays invisible.
func threadMain(id int, body func(), wg *sync.WaitGroup) {
	defer wg.Done()
	defer func() { threadEnd(id, recover()) }()
	waitTurn(id)
	body()
}

// Result describes one controlled execution.
type Result struct {
	Choices  []Choice
	Points   int
	Deadlock bool
	Diverged string
	Escaped  []interface{} // per thread: the panic value that escaped its body, nil otherwise
}

//go:norace
func begin(n int, pfx []int) {
	nThreads = n
	prefix = pfx
	trace = trace[:0]
	points = 0
	deadlock, diverged, aborted = false, "", false
	finished = 0
	for t := 0; t < MaxThreads; t++ {
		st[t] = tNotStarted
		blockedOn[t] = nil
		escaped[t] = nil
	}
	for t := 0; t < n; t++ {
		st[t] = tRunnable
	}
	active = true
	cur = -1
	cur = pick(-1, false)
}

//go:norace
func collect() Result {
	r := Result{Choices: append([]Choice(nil), trace...), Points: points, Deadlock: deadlock, Diverged: diverged}
	for t := 0; t < nThreads; t++ {
		r.Escaped = append(r.Escaped, escaped[t])
	}
	if len(trace) < len(prefix) && diverged == "" {
		r.Diverged = fmt.Sprintf("execution made %d decisions, the replayed prefix has %d", len(trace), len(prefix))
	}
	return r
}

// Run executes bodies as managed threads under the given choice prefix (choice 0 afterwards) and
// returns when all of them have finished or the execution was aborted on a deadlock.
func Run(bodies []func(), pfx []int) Result {
	if len(bodies) > MaxThreads {
		panic("too many threads")
	}
	begin(len(bodies), pfx)
	var wg sync.WaitGroup
	wg.Add(len(bodies))
	for i, b := range bodies {
		go threadMain(i, b, &wg)
	}
	wg.Wait()
	return collect()
}
