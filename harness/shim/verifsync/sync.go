//go:build verifsched

// Package verifsync mirrors the API of package sync. Every operation is a scheduling point, and
// every operation that could block marks the caller as blocked in the scheduler instead of
// blocking in the Go runtime; the real primitive is still invoked (when it is known not to block)
// so that the real happens-before edges exist for the race detector.
package verifsync

import (
	"sync"

	sched "github.com/flamego/flamego/internal/verifsched"
)

type Locker = sync.Locker

// ---- Mutex ----

type Mutex struct {
	real sync.Mutex
	held bool
}

//go:norace
func (m *Mutex) isHeld() bool { return m.held }

//go:norace
func (m *Mutex) setHeld(v bool) { m.held = v }

func (m *Mutex) Lock() {
	sched.Point()
	for sched.Active() && m.isHeld() {
		sched.BlockOn(m)
	}
	m.real.Lock()
	m.setHeld(true)
}

func (m *Mutex) TryLock() bool {
	sched.Point()
	if m.real.TryLock() {
		m.setHeld(true)
		return true
	}
	return false
}

func (m *Mutex) Unlock() {
	m.setHeld(false)
	m.real.Unlock()
	sched.Release(m)
	sched.Point()
}

// ---- RWMutex ----

type RWMutex struct {
	real    sync.RWMutex
	writer  bool
	readers int
}

//go:norace
func (m *RWMutex) state() (bool, int) { return m.writer, m.readers }

//go:norace
func (m *RWMutex) setWriter(v bool) { m.writer = v }

//go:norace
func (m *RWMutex) addReaders(d int) { m.readers += d }

func (m *RWMutex) Lock() {
	sched.Point()
	for sched.Active() {
		w, r := m.state()
		if !w && r == 0 {
			break
		}
		sched.BlockOn(m)
	}
	m.real.Lock()
	m.setWriter(true)
}

func (m *RWMutex) TryLock() bool {
	sched.Point()
	if m.real.TryLock() {
		m.setWriter(true)
		return true
	}
	return false
}

func (m *RWMutex) Unlock() {
	m.setWriter(false)
	m.real.Unlock()
	sched.Release(m)
	sched.Point()
}

func (m *RWMutex) RLock() {
	sched.Point()
	for sched.Active() {
		w, _ := m.state()
		if !w {
			break
		}
		sched.BlockOn(m)
	}
	m.real.RLock()
	m.addReaders(1)
}

func (m *RWMutex) TryRLock() bool {
	sched.Point()
	if m.real.TryRLock() {
		m.addReaders(1)
		return true
	}
	return false
}

func (m *RWMutex) RUnlock() {
	m.addReaders(-1)
	m.real.RUnlock()
	sched.Release(m)
	sched.Point()
}

type rlocker RWMutex

func (r *rlocker) Lock()   { (*RWMutex)(r).RLock() }
func (r *rlocker) Unlock() { (*RWMutex)(r).RUnlock() }

func (m *RWMutex) RLocker() Locker { return (*rlocker)(m) }

// ---- Once ----

type Once struct {
	real    sync.Once
	running bool
}

//go:norace
func (o *Once) isRunning() bool { return o.running }

//go:norace
func (o *Once) setRunning(v bool) { o.running = v }

func (o *Once) Do(f func()) {
	sched.Point()
	for sched.Active() && o.isRunning() {
		sched.BlockOn(o)
	}
	o.real.Do(func() {
		o.setRunning(true)
		defer func() {
			o.setRunning(false)
			sched.Release(o)
		}()
		f()
	})
}

func OnceFunc(f func()) func() {
	var once Once
	var valid bool
	var p interface{}
	g := func() {
		defer func() {
			p = recover()
			if !valid {
				panic(p)
			}
		}()
		f()
		f = nil
		valid = true
	}
	return func() {
		once.Do(g)
		if !valid {
			panic(p)
		}
	}
}

func OnceValue[T any](f func() T) func() T {
	var once Once
	var valid bool
	var p interface{}
	var result T
	g := func() {
		defer func() {
			p = recover()
			if !valid {
				panic(p)
			}
		}()
		result = f()
		f = nil
		valid = true
	}
	return func() T {
		once.Do(g)
		if !valid {
			panic(p)
		}
		return result
	}
}

func OnceValues[T1, T2 any](f func() (T1, T2)) func() (T1, T2) {
	var once Once
	var valid bool
	var p interface{}
	var r1 T1
	var r2 T2
	g := func() {
		defer func() {
			p = recover()
			if !valid {
				panic(p)
			}
		}()
		r1, r2 = f()
		f = nil
		valid = true
	}
	return func() (T1, T2) {
		once.Do(g)
		if !valid {
			panic(p)
		}
		return r1, r2
	}
}

// ---- WaitGroup ----

type WaitGroup struct {
	real sync.WaitGroup
	n    int
}

//go:norace
func (wg *WaitGroup) count() int { return wg.n }

//go:norace
func (wg *WaitGroup) add(d int) int { wg.n += d; return wg.n }

func (wg *WaitGroup) Add(delta int) {
	sched.Point()
	left := wg.add(delta)
	wg.real.Add(delta)
	if left == 0 {
		sched.Release(wg)
	}
}

func (wg *WaitGroup) Done() { wg.Add(-1) }

func (wg *WaitGroup) Wait() {
	sched.Point()
	for sched.Active() && wg.count() > 0 {
		sched.BlockOn(wg)
	}
	wg.real.Wait()
}

// ---- Cond ----

type Cond struct {
	L       Locker
	mu      sync.Mutex // real edges between Signal/Broadcast and the woken Wait
	waiters []*condWaiter
}

type condWaiter struct{ woken bool }

//go:norace
func (w *condWaiter) isWoken() bool { return w.woken }

//go:norace
func (w *condWaiter) wake() { w.woken = true }

func NewCond(l Locker) *Cond { return &Cond{L: l} }

func (c *Cond) Wait() {
	sched.Point()
	w := &condWaiter{}
	c.mu.Lock()
	c.waiters = append(c.waiters, w)
	c.mu.Unlock()
	c.L.Unlock()
	for !w.isWoken() {
		sched.BlockOn(c)
	}
	c.mu.Lock()
	c.mu.Unlock() //nolint:staticcheck // empty critical section: acquires the edge left by the signaller
	c.L.Lock()
}

func (c *Cond) Signal() {
	sched.Point()
	c.mu.Lock()
	if len(c.waiters) > 0 {
		c.waiters[0].wake()
		c.waiters = c.waiters[1:]
	}
	c.mu.Unlock()
	sched.Release(c)
}

func (c *Cond) Broadcast() {
	sched.Point()
	c.mu.Lock()
	for _, w := range c.waiters {
		w.wake()
	}
	c.waiters = nil
	c.mu.Unlock()
	sched.Release(c)
}

// ---- Pool: a deterministic LIFO behind a real mutex (slightly more happens-before than the real
// pool, which is per-P and may drop items; documented in DESIGN.md) ----

type Pool struct {
	New   func() any
	mu    sync.Mutex
	items []any
}

func (p *Pool) Get() any {
	sched.Point()
	p.mu.Lock()
	var x any
	if n := len(p.items); n > 0 {
		x = p.items[n-1]
		p.items = p.items[:n-1]
	}
	p.mu.Unlock()
	if x == nil && p.New != nil {
		x = p.New()
	}
	return x
}

func (p *Pool) Put(x any) {
	sched.Point()
	if x == nil {
		return
	}
	p.mu.Lock()
	p.items = append(p.items, x)
	p.mu.Unlock()
}

// ---- Map ----

type Map struct{ real sync.Map }

func (m *Map) Load(key any) (any, bool)          { sched.Point(); return m.real.Load(key) }
func (m *Map) Store(key, value any)              { sched.Point(); m.real.Store(key, value) }
func (m *Map) Clear()                            { sched.Point(); m.real.Clear() }
func (m *Map) Delete(key any)                    { sched.Point(); m.real.Delete(key) }
func (m *Map) Range(f func(key, value any) bool) { sched.Point(); m.real.Range(f) }
func (m *Map) LoadOrStore(key, value any) (any, bool) {
	sched.Point()
	return m.real.LoadOrStore(key, value)
}
func (m *Map) LoadAndDelete(key any) (any, bool) { sched.Point(); return m.real.LoadAndDelete(key) }
func (m *Map) Swap(key, value any) (any, bool)   { sched.Point(); return m.real.Swap(key, value) }
func (m *Map) CompareAndSwap(key, old, new any) bool {
	sched.Point()
	return m.real.CompareAndSwap(key, old, new)
}
func (m *Map) CompareAndDelete(key, old any) bool {
	sched.Point()
	return m.real.CompareAndDelete(key, old)
}
