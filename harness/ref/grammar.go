package ref

// Recursive-descent recogniser and AST builder for the README grammar:
//
//	<segment_element> ::= <ident> | "{" <ident> "}" | "{" <bind_parameters> "}"
//	<segment> ::= "/" "?"? <segment_element>*
//	<route> ::= <segment>+
//	<bind_parameters> ::= <bind_parameter> | <bind_parameters> "," " "* <bind_parameter>
//	<bind_parameter> ::= <ident> ":" " "* <bind_parameter_value>
//	<bind_parameter_value> ::= <ident> | "/" <any>+ "/"
//
// The README's <char>/<any> classes and the lexer's character classes (which the README also
// points to) differ on a handful of characters: '$' (lexer identifier only) and ~ @ ! & ' ; % =
// (README <any> only). Charset selects which reading to use; a string on which the two readings
// disagree is a documentation inconsistency and gets no accept/reject verdict.

type Charset int

const (
	CharsetREADME Charset = iota
	CharsetLexer
)

func isAlnum(c byte) bool {
	return c >= 'a' && c <= 'z' || c >= 'A' && c <= 'Z' || c >= '0' && c <= '9'
}

func isIdentChar(c byte, cs Charset) bool {
	if isAlnum(c) {
		return true
	}
	switch c {
	case '-', '.', '_', '~', '@', '!', '&', '\'', '(', ')', '*', '+', ';', '%', '=':
		return true
	case '$':
		return cs == CharsetLexer
	}
	return false
}

func isAnyChar(c byte, cs Charset) bool {
	switch c {
	case '[', ']', '+', ',', '?', '{', '}', ' ', '\\', '|':
		return true
	}
	if cs == CharsetREADME {
		return isIdentChar(c, CharsetREADME)
	}
	// lexer: [a-zA-Z0-9*\-+._,?()\[\]{} \\\|]
	if isAlnum(c) {
		return true
	}
	switch c {
	case '*', '-', '.', '_', '(', ')':
		return true
	}
	return false
}

type gparser struct {
	s   string
	pos int
	cs  Charset
	eof bool // a failure happened because the input ended (the input is a viable prefix)
}

func (p *gparser) fail() bool {
	if p.pos >= len(p.s) {
		p.eof = true
	}
	return false
}

func (p *gparser) peek() (byte, bool) {
	if p.pos < len(p.s) {
		return p.s[p.pos], true
	}
	return 0, false
}

func (p *gparser) ident() (string, bool) {
	st := p.pos
	for p.pos < len(p.s) && isIdentChar(p.s[p.pos], p.cs) {
		p.pos++
	}
	return p.s[st:p.pos], p.pos > st
}

func (p *gparser) spaces() {
	for p.pos < len(p.s) && p.s[p.pos] == ' ' {
		p.pos++
	}
}

func (p *gparser) param() (Param, bool) {
	name, ok := p.ident()
	if !ok {
		return Param{}, p.fail()
	}
	if c, ok := p.peek(); !ok || c != ':' {
		return Param{}, p.fail()
	}
	p.pos++
	p.spaces()
	if c, ok := p.peek(); ok && c == '/' {
		p.pos++
		st := p.pos
		for p.pos < len(p.s) && isAnyChar(p.s[p.pos], p.cs) {
			p.pos++
		}
		if p.pos == st {
			return Param{}, p.fail()
		}
		if c, ok := p.peek(); !ok || c != '/' {
			return Param{}, p.fail()
		}
		v := p.s[st:p.pos]
		p.pos++
		return Param{Name: name, Value: v, IsRegex: true}, true
	}
	v, ok := p.ident()
	if !ok {
		return Param{}, p.fail()
	}
	return Param{Name: name, Value: v}, true
}

func (p *gparser) element() (Elem, bool, bool) { // elem, present, ok
	c, ok := p.peek()
	if !ok {
		return Elem{}, false, true
	}
	if c == '{' {
		p.pos++
		save := p.pos
		name, ok := p.ident()
		if !ok {
			return Elem{}, false, p.fail()
		}
		if c, ok := p.peek(); ok && c == '}' {
			p.pos++
			return Elem{Kind: Bind, Text: name}, true, true
		}
		p.pos = save
		var ps []Param
		for {
			pr, ok := p.param()
			if !ok {
				return Elem{}, false, false
			}
			ps = append(ps, pr)
			c, ok := p.peek()
			if !ok {
				return Elem{}, false, p.fail()
			}
			if c == ',' {
				p.pos++
				p.spaces()
				continue
			}
			if c == '}' {
				p.pos++
				return Elem{Kind: Params, Params: ps}, true, true
			}
			return Elem{}, false, false
		}
	}
	if isIdentChar(c, p.cs) {
		id, _ := p.ident()
		return Elem{Kind: Lit, Text: id}, true, true
	}
	return Elem{}, false, true
}

// ParseWith parses s under one reading of the character classes.
func ParseWith(s string, cs Charset) (Route, bool) {
	p := &gparser{s: s, cs: cs}
	var r Route
	for {
		c, ok := p.peek()
		if !ok {
			break
		}
		if c != '/' {
			return Route{}, false
		}
		p.pos++
		var sg Seg
		if c, ok := p.peek(); ok && c == '?' {
			sg.Optional = true
			p.pos++
		}
		for {
			e, present, ok := p.element()
			if !ok {
				return Route{}, false
			}
			if !present {
				break
			}
			sg.Elems = append(sg.Elems, e)
		}
		r.Segs = append(r.Segs, sg)
	}
	if len(r.Segs) == 0 {
		return Route{}, false
	}
	r.Freeze()
	return r, true
}

// Parse returns the route, whether the grammar accepts s, and determined=false when the README
// character classes and the lexer's disagree about s (no accept/reject verdict then).
func Parse(s string) (r Route, accept bool, determined bool) {
	r1, ok1 := ParseWith(s, CharsetREADME)
	r2, ok2 := ParseWith(s, CharsetLexer)
	if ok1 != ok2 {
		if ok2 {
			return r2, true, false
		}
		return r1, true, false
	}
	return r1, ok1, true
}

// MustParse is for catalogues written by hand.
func MustParse(s string) Route {
	r, ok, _ := Parse(s)
	if !ok {
		panic("ref: catalogue route does not parse: " + s)
	}
	return r
}

// ViablePrefix reports whether s can be extended to a string of the grammar (under either reading
// of the character classes): it parses, or the reference parser only failed because the input
// ended.
func ViablePrefix(s string) bool {
	if s == "" {
		return true
	}
	for _, cs := range []Charset{CharsetREADME, CharsetLexer} {
		p := &gparser{s: s, cs: cs}
		if p.run() || p.eof {
			return true
		}
	}
	return false
}

func (p *gparser) run() bool {
	n := 0
	for {
		c, ok := p.peek()
		if !ok {
			break
		}
		if c != '/' {
			return false
		}
		p.pos++
		if c, ok := p.peek(); ok && c == '?' {
			p.pos++
		}
		for {
			_, present, ok := p.element()
			if !ok {
				return false
			}
			if !present {
				break
			}
		}
		n++
	}
	return n > 0
}
