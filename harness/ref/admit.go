package ref

import (
	"regexp"
	"sync"
)

// Matcher evaluates segment admission with a per-instance cache (one Matcher per worker).
type Matcher struct {
	res   map[string]*regexp.Regexp
	admit map[string]map[string]bool // regex-style segment text -> path segment -> admitted
}

func NewMatcher() *Matcher {
	return &Matcher{res: map[string]*regexp.Regexp{}, admit: map[string]map[string]bool{}}
}

var (
	globalReMu sync.Mutex
	globalRe   = map[string]*regexp.Regexp{}
	globalBad  = map[string]bool{}
)

func (m *Matcher) re(expr string) *regexp.Regexp {
	if r, ok := m.res[expr]; ok {
		return r
	}
	globalReMu.Lock()
	r, ok := globalRe[expr]
	if !ok && !globalBad[expr] {
		r = CompileAloneNoCache(expr)
		if r == nil {
			globalBad[expr] = true
		} else {
			globalRe[expr] = r
		}
	}
	globalReMu.Unlock()
	m.res[expr] = r
	return r
}

// SegSplits enumerates every way text can be aligned to a regex-style segment: literals match
// literally, {x} takes a non-empty string, {y: /E/} takes a string that E matches in full when
// compiled alone. yield receives bind name -> raw value; return false to stop.
func (m *Matcher) SegSplits(s Seg, text string, yield func(map[string]string) bool) {
	type unit struct {
		lit  string
		name string
		re   *regexp.Regexp // nil + name != "" => non-empty wildcard
		wild bool
	}
	var units []unit
	for _, e := range s.Elems {
		switch e.Kind {
		case Lit:
			units = append(units, unit{lit: e.Text})
		case Bind:
			units = append(units, unit{name: e.Text, wild: true})
		case Params:
			for _, p := range e.Params {
				if !p.IsRegex {
					return // not a regex-style parameter: admits nothing
				}
				re := m.re(p.Value)
				if re == nil {
					return
				}
				units = append(units, unit{name: p.Name, re: re})
			}
		}
	}
	vals := map[string]string{}
	stop := false
	var rec func(u, pos int)
	rec = func(u, pos int) {
		if stop {
			return
		}
		if u == len(units) {
			if pos == len(text) {
				cp := make(map[string]string, len(vals))
				for k, v := range vals {
					cp[k] = v
				}
				if !yield(cp) {
					stop = true
				}
			}
			return
		}
		un := units[u]
		if un.name == "" {
			if len(text)-pos >= len(un.lit) && text[pos:pos+len(un.lit)] == un.lit {
				rec(u+1, pos+len(un.lit))
			}
			return
		}
		for end := pos; end <= len(text); end++ {
			v := text[pos:end]
			if un.wild {
				if v == "" {
					continue
				}
			} else if !un.re.MatchString(v) {
				continue
			}
			old, had := vals[un.name]
			vals[un.name] = v
			rec(u+1, end)
			if had {
				vals[un.name] = old
			} else {
				delete(vals, un.name)
			}
			if stop {
				return
			}
		}
	}
	rec(0, 0)
}

// SegAdmits: does one route segment admit one path segment.
func (m *Matcher) SegAdmits(s Seg, text string) bool {
	k, _ := s.Kind()
	switch k {
	case KStatic:
		if len(s.Elems) == 0 {
			return text == ""
		}
		return s.Elems[0].Text == text
	case KPlaceholder, KMatchAll:
		return true
	}
	st := s.Text()
	c := m.admit[st]
	if c == nil {
		c = map[string]bool{}
		m.admit[st] = c
	}
	if v, hit := c[text]; hit {
		return v
	}
	ok := false
	m.SegSplits(s, text, func(map[string]string) bool { ok = true; return false })
	if len(c) < 100000 {
		c[text] = ok
	}
	return ok
}

// Alignments enumerates every alignment of a form (segment sequence) to a split path; yield gets
// the raw (undecoded) bind values.
func (m *Matcher) Alignments(form []Seg, path []string, yield func(map[string]string) bool) {
	vals := map[string]string{}
	stop := false
	var rec func(i, j int)
	rec = func(i, j int) {
		if stop {
			return
		}
		if i == len(form) {
			if j == len(path) {
				cp := make(map[string]string, len(vals))
				for k, v := range vals {
					cp[k] = v
				}
				if !yield(cp) {
					stop = true
				}
			}
			return
		}
		s := form[i]
		k, _ := s.Kind()
		switch k {
		case KMatchAll:
			name := s.Binds()[0]
			lim := s.Capture()
			for n := 1; j+n <= len(path) && (lim <= 0 || n <= lim); n++ {
				v := path[j]
				for t := 1; t < n; t++ {
					v += "/" + path[j+t]
				}
				vals[name] = v
				rec(i+1, j+n)
				delete(vals, name)
				if stop {
					return
				}
			}
		case KStatic:
			if j < len(path) && m.SegAdmits(s, path[j]) {
				rec(i+1, j+1)
			}
		case KPlaceholder:
			if j < len(path) {
				vals[s.Elems[0].Text] = path[j]
				rec(i+1, j+1)
				delete(vals, s.Elems[0].Text)
			}
		case KRegex:
			if j < len(path) {
				m.SegSplits(s, path[j], func(sv map[string]string) bool {
					for k, v := range sv {
						vals[k] = v
					}
					rec(i+1, j+1)
					for k := range sv {
						delete(vals, k)
					}
					return !stop
				})
			}
		}
	}
	rec(0, 0)
}

// FormAdmits: does an alignment exist (declarative admission; values are not needed, so the
// cached per-segment test is used).
func (m *Matcher) FormAdmits(form []Seg, path []string) bool {
	var rec func(i, j int) bool
	rec = func(i, j int) bool {
		if i == len(form) {
			return j == len(path)
		}
		s := form[i]
		if k, _ := s.Kind(); k == KMatchAll {
			lim := s.Capture()
			for n := 1; j+n <= len(path) && (lim <= 0 || n <= lim); n++ {
				if rec(i+1, j+n) {
					return true
				}
			}
			return false
		}
		return j < len(path) && m.SegAdmits(s, path[j]) && rec(i+1, j+1)
	}
	return rec(0, 0)
}

// RouteAdmits reports whether the route admits the path in its long or short form.
func (m *Matcher) RouteAdmits(r Route, path []string) (long, short bool) {
	forms := r.Forms()
	long = m.FormAdmits(forms[0], path)
	if len(forms) > 1 {
		short = m.FormAdmits(forms[1], path)
	}
	return
}
