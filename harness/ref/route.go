// Package ref holds the reference models. They are written from the property statements and the
// README, not from the implementation's data structures, and are deliberately boring.
package ref

import (
	"regexp"
	"strconv"
	"strings"
)

type ElemKind int

const (
	Lit    ElemKind = iota // literal text
	Bind                   // {name}
	Params                 // {name: value, name: value}
)

type Param struct {
	Name    string
	Value   string // literal text, or the expression between the slashes
	IsRegex bool
}

type Elem struct {
	Kind   ElemKind
	Text   string // literal text or bind name
	Params []Param
}

type Seg struct {
	Optional bool
	Elems    []Elem

	// caches filled by Freeze (a frozen segment must not be modified afterwards)
	frozen bool
	txt    string
	kind   SegKind
	other  bool
	binds  []string
	capt   int
}

// Freeze precomputes text, kind, binds and capture of every segment of the route.
func (r *Route) Freeze() {
	for i := range r.Segs {
		s := &r.Segs[i]
		s.frozen = false
		s.txt = s.Text()
		s.kind, s.other = s.Kind()
		s.binds = s.Binds()
		s.capt = s.Capture()
		s.frozen = true
	}
	r.forms = nil
	r.forms = r.Forms()
}

type Route struct {
	Segs  []Seg
	forms [][]Seg // cache filled by Freeze
}

// Text renders the canonical form: one blank after ':' and ','.
func (s Seg) Text() string {
	if s.frozen {
		return s.txt
	}
	var b strings.Builder
	b.WriteString("/")
	if s.Optional {
		b.WriteString("?")
	}
	for _, e := range s.Elems {
		switch e.Kind {
		case Lit:
			b.WriteString(e.Text)
		case Bind:
			b.WriteString("{" + e.Text + "}")
		case Params:
			b.WriteString("{")
			for i, p := range e.Params {
				if i > 0 {
					b.WriteString(", ")
				}
				b.WriteString(p.Name + ": ")
				if p.IsRegex {
					b.WriteString("/" + p.Value + "/")
				} else {
					b.WriteString(p.Value)
				}
			}
			b.WriteString("}")
		}
	}
	return b.String()
}

func (r Route) Text() string {
	var b strings.Builder
	for _, s := range r.Segs {
		b.WriteString(s.Text())
	}
	return b.String()
}

type SegKind int

const (
	KStatic SegKind = iota + 1
	KRegex
	KPlaceholder
	KMatchAll
)

func (k SegKind) String() string {
	return [...]string{"?", "static", "regex", "placeholder", "matchall"}[k]
}

// Kind classifies a segment; Other=true marks shapes that are grammatical but belong to none of
// the documented categories (a bind parameter with a non-** literal value, a match-all with
// neighbours or with parameters other than capture); no verdict is attached to those.
func (s Seg) Kind() (k SegKind, other bool) {
	if s.frozen {
		return s.kind, s.other
	}
	if len(s.Elems) == 0 {
		return KStatic, false
	}
	if len(s.Elems) == 1 {
		e := s.Elems[0]
		switch e.Kind {
		case Lit:
			return KStatic, false
		case Bind:
			if e.Text == "**" {
				return KMatchAll, false
			}
			return KPlaceholder, false
		}
	}
	// a parameter list whose first value is the literal ** is a match-all (a capture limit may be negative: as
	// zero, it means no limit)
	if f := s.Elems[0]; f.Kind == Params && !f.Params[0].IsRegex && f.Params[0].Value == "**" {
		clean := len(s.Elems) == 1 && (len(f.Params) == 1 ||
			(len(f.Params) == 2 && f.Params[1].Name == "capture" && !f.Params[1].IsRegex && isDigits(strings.TrimPrefix(f.Params[1].Value, "-"))))
		return KMatchAll, !clean
	}
	for _, e := range s.Elems {
		if e.Kind == Params {
			for _, p := range e.Params {
				if !p.IsRegex {
					return KRegex, true
				}
			}
		}
	}
	return KRegex, false
}

func isDigits(s string) bool {
	if s == "" {
		return false
	}
	for _, c := range s {
		if c < '0' || c > '9' {
			return false
		}
	}
	return true
}

// Capture is the capture limit of a match-all segment (0 = unlimited).
func (s Seg) Capture() int {
	if s.frozen {
		return s.capt
	}
	if len(s.Elems) == 1 && s.Elems[0].Kind == Params && len(s.Elems[0].Params) > 1 {
		p := s.Elems[0].Params[1]
		if p.Name == "capture" && !p.IsRegex {
			n, _ := strconv.Atoi(p.Value)
			return n
		}
	}
	return 0
}

// Binds lists the bind names a segment introduces, in order.
func (s Seg) Binds() []string {
	if s.frozen {
		return s.binds
	}
	k, _ := s.Kind()
	switch k {
	case KStatic:
		return nil
	case KPlaceholder:
		return []string{s.Elems[0].Text}
	case KMatchAll:
		if s.Elems[0].Kind == Bind {
			return []string{"**"}
		}
		return []string{s.Elems[0].Params[0].Name}
	}
	var out []string
	for _, e := range s.Elems {
		switch e.Kind {
		case Bind:
			out = append(out, e.Text)
		case Params:
			for _, p := range e.Params {
				out = append(out, p.Name)
			}
		}
	}
	return out
}

func (r Route) Binds() []string {
	var out []string
	for _, s := range r.Segs {
		out = append(out, s.Binds()...)
	}
	return out
}

func (r Route) HasOptional() bool { return len(r.Segs) > 0 && r.Segs[len(r.Segs)-1].Optional }

// Forms returns the segment sequences a path may be aligned to: the long form, and for a route
// whose last segment is optional also the short form (the route without that segment; for a
// one-segment route the short form is the root path, i.e. one empty static segment).
func (r Route) Forms() [][]Seg {
	if r.forms != nil {
		return r.forms
	}
	long := append([]Seg(nil), r.Segs...)
	if !r.HasOptional() {
		return [][]Seg{long}
	}
	short := append([]Seg(nil), r.Segs[:len(r.Segs)-1]...)
	if len(short) == 0 {
		short = []Seg{{}}
	}
	return [][]Seg{long, short}
}

// CompileAlone compiles one user expression on its own, anchored; nil when it does not compile.
// Not safe for concurrent use of the cache: callers warm it before going parallel, or use
// CompileAloneNoCache.
func CompileAloneNoCache(expr string) *regexp.Regexp {
	re, err := regexp.Compile("^(?:" + expr + ")$")
	if err != nil {
		return nil
	}
	// the expression must also be well-formed on its own, not only inside the wrapper
	if _, err := regexp.Compile(expr); err != nil {
		return nil
	}
	return re
}

// SplitPath splits a raw request path the way the statement says: leading slashes ignored, a
// trailing slash is an extra empty segment.
func SplitPath(raw string) []string {
	return strings.Split(strings.TrimLeft(raw, "/"), "/")
}
