package ref

// The documented priority, as a procedure over a plain ordered trie. Children of a node are keyed
// by canonical segment text and ordered by (rank, first registration); rank: static < regex <
// placeholder < match-all.

type Term struct {
	Seg   Seg
	Text  string
	Kind  SegKind
	Route int  // index into Trie.Routes
	Short bool // the short form of an optional route
	seq   int
}

type Sub struct {
	Seg  Seg
	Text string
	Kind SegKind
	seq  int
	Node *Node
}

type Node struct {
	Subs  []*Sub
	Terms []*Term
}

type Trie struct {
	Root   *Node
	Routes []Route
	seq    int
}

func NewTrie() *Trie { return &Trie{Root: &Node{}} }

func (n *Node) sub(text string) *Sub {
	for _, s := range n.Subs {
		if s.Text == text {
			return s
		}
	}
	return nil
}

func (n *Node) term(text string) *Term {
	for _, t := range n.Terms {
		if t.Text == text {
			return t
		}
	}
	return nil
}

func (n *Node) matchAllSub() *Sub {
	for _, s := range n.Subs {
		if s.Kind == KMatchAll {
			return s
		}
	}
	return nil
}

func (n *Node) matchAllTerm() *Term {
	for _, t := range n.Terms {
		if t.Kind == KMatchAll {
			return t
		}
	}
	return nil
}

// Validate returns "" when the route is well-formed and may be registered given what the trie
// already holds, a reason when it must be rejected, and other=true when the route contains a shape
// outside the documented categories (no verdict either way).
func (t *Trie) Validate(r Route) (reason string, other bool) {
	n := len(r.Segs)
	if n == 0 {
		return "empty route", false
	}
	seen := map[string]bool{}
	middleAll := 0
	for i, s := range r.Segs {
		k, o := s.Kind()
		if o {
			other = true
		}
		if s.Optional && i != n-1 {
			return "non-final optional segment", other
		}
		if len(s.Elems) == 0 && i != n-1 {
			return "empty inner segment", other
		}
		if k == KMatchAll && i != n-1 {
			middleAll++
		}
		for _, b := range s.Binds() {
			if seen[b] {
				return "bind name reused: " + b, other
			}
			seen[b] = true
		}
		if k == KRegex {
			for _, e := range s.Elems {
				if e.Kind == Params {
					for _, p := range e.Params {
						if p.IsRegex && CompileAloneNoCache(p.Value) == nil {
							return "expression does not compile: " + p.Value, other
						}
					}
				}
			}
		}
	}
	if other {
		return "", true
	}
	if middleAll > 1 {
		return "two match-all segments before the end", false
	}
	// walk returns the node below the first k segments, nil when nothing is registered there
	walk := func(k int) *Node {
		node := t.Root
		for i := 0; i < k && node != nil; i++ {
			if sb := node.sub(r.Segs[i].Text()); sb != nil {
				node = sb.Node
			} else {
				node = nil
			}
		}
		return node
	}
	for i := 0; i < n-1; i++ {
		if k, _ := r.Segs[i].Kind(); k == KMatchAll {
			if node := walk(i); node != nil {
				if ma := node.matchAllSub(); ma != nil && ma.Text != r.Segs[i].Text() {
					return "two different match-alls share a position (sub-route)", false
				}
			}
		}
	}
	last := r.Segs[n-1]
	if node := walk(n - 1); node != nil {
		if node.term(last.Text()) != nil {
			return "duplicate route", false
		}
		if lk, _ := last.Kind(); lk == KMatchAll && node.matchAllTerm() != nil {
			return "two different match-alls share a position (terminal)", false
		}
	}
	if last.Optional {
		sseg, snode := Seg{}, t.Root
		if n > 1 {
			sseg, snode = r.Segs[n-2], walk(n-2)
		}
		if snode != nil {
			if snode.term(sseg.Text()) != nil {
				return "duplicate route (short form of the optional segment)", false
			}
			if sk, _ := sseg.Kind(); sk == KMatchAll && snode.matchAllTerm() != nil {
				return "two different match-alls share a position (short-form terminal)", false
			}
		}
	}
	return "", false
}

func insertSub(list []*Sub, s *Sub) []*Sub {
	i := 0
	for ; i < len(list); i++ {
		if s.Kind < list[i].Kind {
			break
		}
	}
	list = append(list, nil)
	copy(list[i+1:], list[i:])
	list[i] = s
	return list
}

func insertTerm(list []*Term, s *Term) []*Term {
	i := 0
	for ; i < len(list); i++ {
		if s.Kind < list[i].Kind {
			break
		}
	}
	list = append(list, nil)
	copy(list[i+1:], list[i:])
	list[i] = s
	return list
}

// Add registers a (validated) route and returns its index.
func (t *Trie) Add(r Route) int {
	idx := len(t.Routes)
	t.Routes = append(t.Routes, r)
	n := len(r.Segs)
	node := t.Root
	var above *Node
	for i := 0; i < n-1; i++ {
		s := r.Segs[i]
		txt := s.Text()
		sb := node.sub(txt)
		if sb == nil {
			k, _ := s.Kind()
			t.seq++
			sb = &Sub{Seg: s, Text: txt, Kind: k, seq: t.seq, Node: &Node{}}
			node.Subs = insertSub(node.Subs, sb)
		}
		above = node
		node = sb.Node
	}
	last := r.Segs[n-1]
	if last.Optional {
		var sseg Seg
		snode := above
		if n == 1 {
			sseg, snode = Seg{}, t.Root
		} else {
			sseg = r.Segs[n-2]
		}
		k, _ := sseg.Kind()
		t.seq++
		snode.Terms = insertTerm(snode.Terms, &Term{Seg: sseg, Text: sseg.Text(), Kind: k, Route: idx, Short: true, seq: t.seq})
	}
	k, _ := last.Kind()
	t.seq++
	node.Terms = insertTerm(node.Terms, &Term{Seg: last, Text: last.Text(), Kind: k, Route: idx, seq: t.seq})
	return idx
}

// MatchResult is the winner of the priority procedure.
type MatchResult struct {
	Found       bool
	Route       int
	Short       bool
	Backtracked bool // some higher-ranked branch admitted a prefix and failed deeper
	Candidates  int  // terminals that admitted the final segment while searching (>=1 if found)
}

// Match runs the documented priority procedure. eligible (may be nil) filters terminals, e.g. by
// header constraints: an ineligible terminal is invisible.
func (t *Trie) Match(m *Matcher, path []string, eligible func(*Term) bool) MatchResult {
	res := MatchResult{}
	var rec func(n *Node, j int) *Term
	rec = func(n *Node, j int) *Term {
		last := len(path) - 1
		if j == last {
			for _, tm := range n.Terms {
				if m.SegAdmits(tm.Seg, path[j]) && (eligible == nil || eligible(tm)) {
					return tm
				}
			}
			return nil
		}
		for _, sb := range n.Subs {
			if sb.Kind == KMatchAll {
				lim := sb.Seg.Capture()
				for k := 1; j+k <= last && (lim <= 0 || k <= lim); k++ {
					if tm := rec(sb.Node, j+k); tm != nil {
						return tm
					}
					res.Backtracked = true
				}
				continue
			}
			if m.SegAdmits(sb.Seg, path[j]) {
				if tm := rec(sb.Node, j+1); tm != nil {
					return tm
				}
				res.Backtracked = true
			}
		}
		if len(n.Terms) > 0 {
			tm := n.Terms[len(n.Terms)-1]
			if tm.Kind == KMatchAll {
				lim := tm.Seg.Capture()
				if (lim <= 0 || lim >= len(path)-j) && (eligible == nil || eligible(tm)) {
					return tm
				}
			}
		}
		return nil
	}
	if tm := rec(t.Root, 0); tm != nil {
		res.Found, res.Route, res.Short = true, tm.Route, tm.Short
	}
	return res
}
