package ref

import "strings"

// URLToken is one piece of a route's URL skeleton.
type URLToken struct {
	Lit  string
	Bind string // non-empty => a {bind} slot
}

// URLSkeleton lists literal pieces and bind slots of a route in order. Regex and capture
// annotations are dropped; a parameter list contributes one slot per bind it declares (a match-all
// list declares one bind). withOptional=false stops before the optional segment.
func (r Route) URLSkeleton(withOptional bool) []URLToken {
	var out []URLToken
	for _, s := range r.Segs {
		if s.Optional && !withOptional {
			break
		}
		out = append(out, URLToken{Lit: "/"})
		k, _ := s.Kind()
		if k == KMatchAll {
			out = append(out, URLToken{Bind: s.Binds()[0]})
			continue
		}
		for _, e := range s.Elems {
			switch e.Kind {
			case Lit:
				out = append(out, URLToken{Lit: e.Text})
			case Bind:
				out = append(out, URLToken{Bind: e.Text})
			case Params:
				for _, p := range e.Params {
					out = append(out, URLToken{Bind: p.Name})
				}
			}
		}
	}
	return out
}

// BuildURL substitutes every bind slot at once: a slot with a value gets the value verbatim
// (values are never re-scanned), a slot without stays visible as {bind}; names that are not slots
// are ignored.
func (r Route) BuildURL(vals map[string]string, withOptional bool) string {
	var b strings.Builder
	for _, t := range r.URLSkeleton(withOptional) {
		if t.Bind == "" {
			b.WriteString(t.Lit)
			continue
		}
		if v, ok := vals[t.Bind]; ok {
			b.WriteString(v)
		} else {
			b.WriteString("{" + t.Bind + "}")
		}
	}
	return b.String()
}
