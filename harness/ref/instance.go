package ref

// Instance builds a request path that a form admits, by brute force over short strings for
// regex-style segments. ok=false when none is found within the bound.
func (m *Matcher) Instance(form []Seg) (path []string, ok bool) {
	alpha := []string{"a", "b", "c", "x", "y", "1", "-", "+", ".", "(", ")", "v", "p", "q"}
	for _, s := range form {
		k, _ := s.Kind()
		switch k {
		case KStatic:
			if len(s.Elems) == 0 {
				path = append(path, "")
			} else {
				path = append(path, s.Elems[0].Text)
			}
		case KPlaceholder, KMatchAll:
			path = append(path, "v")
		case KRegex:
			found := ""
			has := false
			var rec func(p string, d int)
			rec = func(p string, d int) {
				if has {
					return
				}
				for _, a := range alpha {
					t := p + a
					if m.SegAdmits(s, t) {
						found, has = t, true
						return
					}
				}
				if d+1 < 4 {
					for _, a := range alpha {
						rec(p+a, d+1)
						if has {
							return
						}
					}
				}
			}
			// try candidates built from the literals first
			lit := ""
			for _, e := range s.Elems {
				if e.Kind == Lit {
					lit += e.Text
				} else {
					lit += "a"
				}
			}
			if m.SegAdmits(s, lit) {
				found, has = lit, true
			} else {
				rec("", 0)
			}
			if !has {
				return nil, false
			}
			path = append(path, found)
		}
	}
	return path, true
}
