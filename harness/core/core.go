// Package core holds what every check shares: counters, the violation pipeline (replay artefact,
// five re-executions in a fresh process, known-findings lookup), the evidence writer and the
// parallel sharding helper.
package core

import (
	"bytes"
	"context"
	"crypto/sha1"
	"encoding/hex"
	"encoding/json"
	"fmt"
	"os"
	"os/exec"
	"path"
	"path/filepath"
	"runtime"
	"sort"
	"strconv"
	"strings"
	"sync"
	"sync/atomic"
	"time"
)

// VerifDir is the root of the verification tree.
var VerifDir = func() string {
	if d := os.Getenv("VERIF_DIR"); d != "" {
		return d
	}
	return "/verif"
}()

// Workers is the number of worker goroutines enumeration checks use.
var Workers = func() int {
	if s := os.Getenv("VERIF_WORKERS"); s != "" {
		if n, err := strconv.Atoi(s); err == nil && n > 0 {
			return n
		}
	}
	n := runtime.NumCPU()
	if n > 16 {
		n = 16
	}
	return n
}()

// Violation is one failing element of the explored space.
type Violation struct {
	Key  string          `json:"key"`  // finding key: canonical description of the failing shape
	Desc string          `json:"desc"` // human readable: what was expected, what was observed
	Case json.RawMessage `json:"case"` // self-contained replay payload
	size int
}

// Local is a per-worker counter block, merged into the Run when the worker is done.
type Local struct {
	Evals, NonTrivial, States, Transitions, Traces int64
	Classes                                        map[string]int64
	Samples                                        []interface{}
	viols                                          map[string]*Violation
	violCount                                      int64
	Extra                                          map[string]int64
	beat                                           int64 // heartbeat for the watchdog (see watchdog.go)
}

func NewLocal() *Local {
	l := &Local{Classes: map[string]int64{}, viols: map[string]*Violation{}, Extra: map[string]int64{}}
	registerBeat(&l.beat)
	return l
}

func (l *Local) Class(c string) {
	l.Classes[c]++
	atomic.AddInt64(&l.beat, 1)
}

// Sample keeps up to 4 samples per worker.
func (l *Local) Sample(s interface{}) {
	if len(l.Samples) < 4 {
		l.Samples = append(l.Samples, s)
	}
}

// Violate records a violation; per key only the smallest case is kept.
func (l *Local) Violate(key, desc string, c interface{}) {
	l.violCount++
	raw, err := json.Marshal(c)
	if err != nil {
		panic(err)
	}
	if old, ok := l.viols[key]; ok && old.size <= len(raw) {
		return
	}
	if len(l.viols) >= 200 {
		if _, ok := l.viols[key]; !ok {
			return
		}
	}
	l.viols[key] = &Violation{Key: key, Desc: desc, Case: raw, size: len(raw)}
}

// Run is one invocation of one check.
type Run struct {
	ID    string
	Tier  string
	Seed  int64
	Start time.Time

	mu          sync.Mutex
	total       *Local
	Rule        string
	Bounds      map[string]interface{}
	Exhaustive  bool
	Assumptions []string
	Notes       map[string]interface{}
	Deadline    time.Time
	deadlineHit bool
}

func NewRun(id, tier string) *Run {
	seed, _ := strconv.ParseInt(os.Getenv("VERIF_SEED"), 10, 64)
	return &Run{ID: id, Tier: tier, Seed: seed, Start: time.Now(), total: NewLocal(),
		Bounds: map[string]interface{}{}, Notes: map[string]interface{}{}, Exhaustive: true}
}

func (r *Run) Thorough() bool { return r.Tier == "thorough" }

// HasViolations reports whether anything has been merged into the run as a violation (for replays that
// re-run a phase).
func (r *Run) HasViolations() bool {
	r.mu.Lock()
	defer r.mu.Unlock()
	return len(r.total.viols) > 0
}

// SetBudget sets the internal deadline; a run that hits it stops early with exhaustive=false.
func (r *Run) SetBudget(d time.Duration) { r.Deadline = r.Start.Add(d) }

// Expired is polled by enumeration loops (cheaply, every few thousand elements).
func (r *Run) Expired() bool {
	if r.Deadline.IsZero() || time.Now().Before(r.Deadline) {
		return false
	}
	r.mu.Lock()
	r.deadlineHit = true
	r.Exhaustive = false
	r.mu.Unlock()
	return true
}

func (r *Run) NotExhaustive(why string) {
	r.mu.Lock()
	r.Exhaustive = false
	r.Notes["not_exhaustive_because"] = why
	r.mu.Unlock()
}

func (r *Run) Merge(l *Local) {
	r.mu.Lock()
	defer r.mu.Unlock()
	t := r.total
	t.Evals += l.Evals
	t.NonTrivial += l.NonTrivial
	t.States += l.States
	t.Transitions += l.Transitions
	t.Traces += l.Traces
	t.violCount += l.violCount
	for k, v := range l.Classes {
		t.Classes[k] += v
	}
	for k, v := range l.Extra {
		t.Extra[k] += v
	}
	for _, s := range l.Samples {
		if len(t.Samples) < 12 {
			t.Samples = append(t.Samples, s)
		}
	}
	for k, v := range l.viols {
		if old, ok := t.viols[k]; !ok || v.size < old.size {
			t.viols[k] = v
		}
	}
}

// Parallel runs fn on Workers goroutines, each with its own Local; worker w should take the
// elements i with i % n == w.
func (r *Run) Parallel(fn func(w, n int, l *Local)) {
	n := Workers
	var wg sync.WaitGroup
	for w := 0; w < n; w++ {
		wg.Add(1)
		go func(w int) {
			defer wg.Done()
			l := NewLocal()
			fn(w, n, l)
			r.Merge(l)
		}(w)
	}
	wg.Wait()
}

type knownFinding struct {
	Property string `json:"property"`
	Key      string `json:"key"`    // exact finding key, or a pattern with * (matches within one /-separated part)
	Status   string `json:"status"` // "open" or "fixed"
	Commit   string `json:"commit,omitempty"`
	What     string `json:"what"`
}

func loadKnown(id string) map[string]knownFinding {
	out := map[string]knownFinding{}
	raw, err := os.ReadFile(filepath.Join(VerifDir, "known_findings.json"))
	if err != nil {
		return out
	}
	var f struct {
		Findings []knownFinding `json:"findings"`
	}
	if json.Unmarshal(raw, &f) != nil {
		return out
	}
	for _, k := range f.Findings {
		if k.Property == id && k.Status == "open" {
			out[k.Key] = k
		}
	}
	return out
}

func matchKnown(known map[string]knownFinding, key string) (knownFinding, bool) {
	if kf, ok := known[key]; ok {
		return kf, true
	}
	for pat, kf := range known {
		if strings.Contains(pat, "*") {
			if ok, _ := path.Match(pat, key); ok {
				return kf, true
			}
		}
	}
	return knownFinding{}, false
}

// Finish confirms violations, writes evidence, prints the verdict and returns the exit code.
func (r *Run) Finish() int {
	t := r.total
	wall := time.Since(r.Start).Seconds()
	if os.Getenv("VERIF_KEYS_CHILD") != "" {
		// whole-run re-execution on behalf of a parent: only the finding keys of this run are wanted
		for k := range t.viols {
			fmt.Printf("KEY %s\n", k)
		}
		return 0
	}

	keys := make([]string, 0, len(t.viols))
	for k := range t.viols {
		keys = append(keys, k)
	}
	sort.Slice(keys, func(i, j int) bool {
		if t.viols[keys[i]].size != t.viols[keys[j]].size {
			return t.viols[keys[i]].size < t.viols[keys[j]].size
		}
		return keys[i] < keys[j]
	})
	// Listed (open) findings are grouped first: one representative (the smallest case) per listed
	// finding, so that they can never crowd a new violation out of the report; then up to 20 others.
	known := loadKnown(r.ID)
	{
		seenKnown := map[string]bool{}
		var kept []string
		unknown := 0
		for _, k := range keys {
			if kf, ok := matchKnown(known, k); ok {
				if !seenKnown[kf.Key] {
					seenKnown[kf.Key] = true
					kept = append(kept, k)
				}
				continue
			}
			if unknown < 80 {
				kept = append(kept, k)
				unknown++
			}
		}
		keys = kept
	}
	self, _ := os.Executable()
	type vrec struct {
		Key     string `json:"key"`
		Desc    string `json:"desc"`
		Replay  string `json:"replay"`
		Repro   int    `json:"reproduced"`
		Tries   int    `json:"re_executions"`
		Flaky   bool   `json:"flaky,omitempty"`
		Known   bool   `json:"known_finding,omitempty"`
		Anomaly bool   `json:"anomaly,omitempty"`
		// WholeRun: the finding depends on what earlier cases of the enumeration left behind on the same
		// instance: its case alone does not show it from a fresh instance, re-running the whole
		// (deterministic) enumeration in a fresh process does
		WholeRun bool `json:"reproduced_by_rerunning_the_whole_enumeration,omitempty"`
	}
	var recs []vrec
	var wholeRunKeys map[string]bool
	wholeRun := func(key string) bool {
		if wholeRunKeys == nil {
			wholeRunKeys = map[string]bool{}
			for try := 0; try < 2; try++ {
				cmd := exec.Command(self, r.ID, r.Tier)
				cmd.Env = append(os.Environ(), "VERIF_KEYS_CHILD=1")
				var out bytes.Buffer
				cmd.Stdout = &out
				_ = cmd.Run()
				for _, l := range strings.Split(out.String(), "\n") {
					if strings.HasPrefix(l, "KEY ") {
						wholeRunKeys[strings.TrimPrefix(l, "KEY ")] = true
					}
				}
				if wholeRunKeys[key] {
					break
				}
			}
		}
		return wholeRunKeys[key]
	}
	exit := 0
	var lines []string
	confirmed := 0
	for _, k := range keys {
		if confirmed >= 20 {
			break // enough confirmed violations to report; findings that do not reproduce never use up this allowance
		}
		v := t.viols[k]
		dir := filepath.Join(VerifDir, "replays", r.ID)
		_ = os.MkdirAll(dir, 0o755)
		h := sha1.Sum(append([]byte(v.Key+"\x00"), v.Case...))
		path := filepath.Join(dir, hex.EncodeToString(h[:6])+".json")
		payload, _ := json.MarshalIndent(map[string]interface{}{"property": r.ID, "key": v.Key, "desc": v.Desc, "case": v.Case}, "", " ")
		_ = os.WriteFile(path, payload, 0o644)
		// A report of the race detector is sound evidence whenever it appears, but the detector may
		// stay silent on a re-execution (its per-thread event history is bounded, so the stack of the
		// earlier access cannot always be restored and the report is then dropped): such findings are
		// re-executed until the first reproduction, up to 30 times.
		// Likewise a violation of code that has become nondeterministic (e.g. through map iteration order)
		// need not show on every re-execution: five re-executions are always made, and when none of them
		// reproduces the violation up to 35 more are made, stopping at the first reproduction.
		tries := 40
		raceKey := strings.HasPrefix(v.Key, "data-race")
		repro, ntries := 0, 0
		for i := 0; i < tries; i++ {
			if repro > 0 && (raceKey || i >= 5) {
				break
			}
			ntries++
			ctx, cancel := context.WithTimeout(context.Background(), 10*time.Minute)
			cmd := exec.CommandContext(ctx, self, r.ID, "--replay", path)
			cmd.Env = append(os.Environ(), "VERIF_REPLAY_CHILD=1")
			var out bytes.Buffer
			cmd.Stdout, cmd.Stderr = &out, &out
			err := cmd.Run()
			cancel()
			if ee, ok := err.(*exec.ExitError); ok && ee.ExitCode() == 1 {
				repro++
			}
		}
		rec := vrec{Key: v.Key, Desc: v.Desc, Replay: path, Repro: repro, Tries: ntries}
		if repro == 0 && wholeRun(v.Key) {
			// history-dependent: the artefact becomes "this case, reached by the whole enumeration"
			rec.WholeRun, repro = true, 1
			payload, _ := json.MarshalIndent(map[string]interface{}{"property": r.ID, "key": v.Key, "desc": v.Desc, "case": v.Case,
				"replay_mode": "whole-run", "tier": r.Tier,
				"note": "the case alone does not show the violation from a fresh instance; it depends on what earlier cases of the enumeration left behind. --replay re-runs the enumeration of this tier and looks for this key."}, "", " ")
			_ = os.WriteFile(path, payload, 0o644)
		}
		switch {
		case repro == 0:
			rec.Anomaly = true
			r.Exhaustive = false
			lines = append(lines, fmt.Sprintf("ANOMALY property=%s key=%q did not reproduce from %s (harness nondeterminism; not believed)", r.ID, v.Key, path))
		default:
			rec.Flaky = repro < ntries && !raceKey && !rec.WholeRun
			if kf, ok := matchKnown(known, v.Key); ok {
				rec.Known = true
				lines = append(lines, fmt.Sprintf("KNOWN-FINDING: property=%s %s [key=%s]", r.ID, kf.What, v.Key))
			} else {
				exit = 1
				confirmed++
				lines = append(lines, fmt.Sprintf("VIOLATION property=%s replay=%s", r.ID, path))
				lines = append(lines, fmt.Sprintf("  key=%s\n  %s", v.Key, v.Desc))
			}
		}
		recs = append(recs, rec)
	}

	classes := map[string]int64{}
	for k, v := range t.Classes {
		classes[k] = v
	}
	samples := t.Samples
	if len(samples) == 0 {
		samples = []interface{}{"(no sample recorded)"}
	}
	cov := map[string]interface{}{
		"states":                        t.States,
		"transitions":                   t.Transitions,
		"traces_validated_against_impl": t.Traces,
		"evaluations":                   t.Evals,
		"distinct_nontrivial":           t.NonTrivial,
		"rule":                          r.Rule,
		"samples":                       samples,
		"exhaustive":                    r.Exhaustive,
		"outcome_classes":               classes,
		"bounds":                        r.Bounds,
		"violations_seen_total":         t.violCount,
		"violations_reported":           recs,
	}
	for k, v := range t.Extra {
		cov[k] = v
	}
	for k, v := range r.Notes {
		cov[k] = v
	}
	nviol := 0
	for _, rc := range recs {
		if !rc.Anomaly && !rc.Known {
			nviol++
		}
	}
	ev := map[string]interface{}{
		"property_id": r.ID,
		"tier":        r.Tier,
		"seed":        r.Seed,
		"level":       "model_checking",
		"coverage":    cov,
		"assumptions": r.Assumptions,
		"wall_s":      wall,
		"violations":  nviol,
	}
	raw, _ := json.MarshalIndent(ev, "", " ")
	evPath := filepath.Join(VerifDir, "evidence", r.ID+".json")
	_ = os.MkdirAll(filepath.Dir(evPath), 0o755)
	if err := os.WriteFile(evPath, append(raw, '\n'), 0o644); err != nil {
		fmt.Fprintln(os.Stderr, "cannot write evidence:", err)
		return 2
	}
	fmt.Printf("%s %s: states=%d transitions=%d traces=%d evaluations=%d nontrivial=%d classes=%d exhaustive=%v wall=%.1fs\n",
		r.ID, r.Tier, t.States, t.Transitions, t.Traces, t.Evals, t.NonTrivial, len(classes), r.Exhaustive, wall)
	for _, l := range lines {
		fmt.Println(l)
	}
	if exit == 0 {
		// vacuity guards: a degenerate run is an infrastructure failure, not a pass
		if t.States < 1 || t.Transitions < 1 || len(classes) < 2 {
			fmt.Printf("SANITY-FAIL %s: degenerate exploration (states=%d transitions=%d outcome classes=%d)\n", r.ID, t.States, t.Transitions, len(classes))
			return 2
		}
	}
	return exit
}

// Check is what a property registers.
type Check struct {
	ID     string
	Run    func(r *Run)
	Replay func(raw json.RawMessage) (violated bool, desc string)
}

var Registry = map[string]*Check{}

func Register(c *Check) { Registry[c.ID] = c }

// Main is the body of cmd/vcheck.
func Main(args []string) int {
	if len(args) < 2 {
		fmt.Fprintln(os.Stderr, "usage: vcheck <ID> <quick|thorough> | vcheck <ID> --replay <file>")
		return 2
	}
	c, ok := Registry[args[0]]
	if !ok {
		fmt.Fprintln(os.Stderr, "unknown property", args[0])
		return 2
	}
	if args[1] == "--replay" {
		if len(args) < 3 {
			return 2
		}
		raw, err := os.ReadFile(args[2])
		if err != nil {
			fmt.Fprintln(os.Stderr, err)
			return 2
		}
		var f struct {
			Case json.RawMessage `json:"case"`
			Key  string          `json:"key"`
			Mode string          `json:"replay_mode"`
			Tier string          `json:"tier"`
		}
		if err := json.Unmarshal(raw, &f); err != nil {
			fmt.Fprintln(os.Stderr, err)
			return 2
		}
		if f.Mode == "whole-run" {
			r := NewRun(c.ID, f.Tier)
			c.Run(r)
			if v, ok := r.total.viols[f.Key]; ok {
				fmt.Printf("REPRODUCED property=%s (by re-running the %s enumeration)\n  %s\n", c.ID, f.Tier, v.Desc)
				if os.Getenv("VERIF_REPLAY_CHILD") == "" {
					fmt.Printf("VIOLATION property=%s replay=%s\n", c.ID, args[2])
				}
				return 1
			}
			fmt.Printf("NOT-REPRODUCED property=%s\n", c.ID)
			return 0
		}
		v, desc := c.Replay(f.Case)
		if v {
			fmt.Printf("REPRODUCED property=%s\n  %s\n", c.ID, desc)
			if os.Getenv("VERIF_REPLAY_CHILD") == "" {
				fmt.Printf("VIOLATION property=%s replay=%s\n", c.ID, args[2])
			}
			return 1
		}
		fmt.Printf("NOT-REPRODUCED property=%s\n", c.ID)
		return 0
	}
	tier := args[1]
	if tier != "quick" && tier != "thorough" {
		fmt.Fprintln(os.Stderr, "tier must be quick or thorough")
		return 2
	}
	r := NewRun(c.ID, tier)
	startWatchdog()
	c.Run(r)
	return r.Finish()
}
