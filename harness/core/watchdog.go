package core

import (
	"fmt"
	"os"
	"regexp"
	"runtime"
	"strings"
	"sync"
	"sync/atomic"
	"time"
)

// The watchdog turns "a call into the code under test never returns" into a verdict. Every Local counts
// its outcome classifications in a heartbeat; when the sum of all heartbeats has not moved for
// hangAfter AND a goroutine is parked (lock, channel, select, condition) with a frame of the code
// under test on its stack, the process prints a Go-runtime-style "fatal error: hang" report and exits
// with status 2. bin/check treats that like a runtime crash: the check is run again, and a second
// hang in a row is the violation (the report is the artefact). A harness that is merely slow has no
// goroutine parked inside the code under test and is left alone.

const hangAfter = 90 * time.Second

var (
	beatMu sync.Mutex
	beats  []*int64
)

func registerBeat(p *int64) {
	beatMu.Lock()
	beats = append(beats, p)
	beatMu.Unlock()
}

func beatSum() int64 {
	beatMu.Lock()
	defer beatMu.Unlock()
	var s int64
	for _, p := range beats {
		s += atomic.LoadInt64(p)
	}
	return s + int64(len(beats))
}

var parkedRE = regexp.MustCompile(`^goroutine \d+ \[(semacquire|sync\.Mutex\.Lock|sync\.RWMutex\.R?Lock|chan send|chan receive|select|sync\.Cond\.Wait|sync\.WaitGroup\.Wait)[,\]]`)

// parkedInCodeUnderTest returns the dump of the first goroutine that is parked with a frame of
// github.com/flamego/flamego (other than the harness) on its stack.
func parkedInCodeUnderTest(dump string) string {
	for _, g := range strings.Split(dump, "\n\n") {
		if !parkedRE.MatchString(g) {
			continue
		}
		for _, line := range strings.Split(g, "\n") {
			if strings.HasPrefix(line, "github.com/flamego/flamego") && !strings.Contains(line, "verifharness") {
				return g
			}
		}
	}
	return ""
}

func startWatchdog() {
	if os.Getenv("VERIF_NO_WATCHDOG") != "" {
		return
	}
	go func() {
		last, since := beatSum(), time.Now()
		for {
			time.Sleep(5 * time.Second)
			if s := beatSum(); s != last {
				last, since = s, time.Now()
				continue
			}
			if time.Since(since) < hangAfter {
				continue
			}
			buf := make([]byte, 4<<20)
			buf = buf[:runtime.Stack(buf, true)]
			g := parkedInCodeUnderTest(string(buf))
			if g == "" {
				since = time.Now() // slow harness phase, nothing parked inside the code under test
				continue
			}
			fmt.Fprintf(os.Stderr, "fatal error: hang: no evaluation completed for %s and a goroutine is parked inside the code under test\n\n%s\n\n(all goroutines)\n%s\n", hangAfter, g, buf)
			os.Exit(2)
		}
	}()
}
