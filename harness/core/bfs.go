package core

import "sync"

// BFS is engine B: explicit-state breadth-first search over real objects. A state is represented
// by the shortest operation history reaching it; a successor is produced by replaying history+op
// on a fresh instance (Step), which also compares with the reference model after every transition
// and evaluates the invariants. Step returns the canonical key of the state reached; ok=false
// prunes (the op is not enabled or a violation was recorded).
type BFS struct {
	NumOps   int
	MaxDepth int
	Step     func(hist []int, l *Local) (key string, ok bool)
	Run      *Run
	// Dedup=false walks the full operation tree (used by thorough tiers to cross-check the key).
	Dedup bool
}

// Search explores level by level, in parallel inside a level, and returns states/transitions.
func (b *BFS) Search() (states, transitions int64, completedDepth int) {
	seen := map[string]struct{}{}
	var mu sync.Mutex
	frontier := [][]int{{}}
	states = 1
	for depth := 1; depth <= b.MaxDepth; depth++ {
		if b.Run.Expired() {
			return states, transitions, depth - 1
		}
		type succ struct {
			hist []int
			key  string
		}
		results := make([][]succ, Workers)
		var trans int64
		cut := false
		b.Run.Parallel(func(w, n int, l *Local) {
			var local []succ
			var t int64
			for i, k := w, 0; i < len(frontier); i, k = i+n, k+1 {
				if k%16 == 0 && b.Run.Expired() {
					mu.Lock()
					cut = true
					mu.Unlock()
					break
				}
				h := frontier[i]
				for op := 0; op < b.NumOps; op++ {
					nh := make([]int, len(h)+1)
					copy(nh, h)
					nh[len(h)] = op
					key, ok := b.Step(nh, l)
					l.Traces++
					if !ok {
						continue
					}
					t++
					local = append(local, succ{nh, key})
				}
			}
			results[w] = local
			mu.Lock()
			trans += t
			mu.Unlock()
		})
		transitions += trans
		var next [][]int
		// deterministic merge order: by worker, then by generation order
		for _, rs := range results {
			for _, s := range rs {
				if b.Dedup {
					if _, dup := seen[s.key]; dup {
						continue
					}
					seen[s.key] = struct{}{}
				}
				states++
				next = append(next, s.hist)
			}
		}
		frontier = next
		if cut {
			return states, transitions, depth - 1 // the level was cut by the deadline: not completed
		}
		completedDepth = depth
		if len(frontier) == 0 {
			break
		}
	}
	return states, transitions, completedDepth
}
